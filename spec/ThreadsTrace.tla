----------------------------- MODULE ThreadsTrace -----------------------------
(***************************************************************************)
(* Trace validation for C15.  The harness runs real threads on one real    *)
(* synchronous client under a deterministic scheduler and records, in the  *)
(* order they happened, the transport operations and the end of each call: *)
(*   [th, op]  op \in "send" | "recv" | "done" | "deadlock"                *)
(* and per call [th, want (what the request asked for), gotv (what the     *)
(* returned reply carries), kind].                                         *)
(***************************************************************************)
EXTENDS Naturals, Sequences, FiniteSets, TLC, Json, IOUtils
Traces == JsonDeserialize(IOEnv.TRACE_FILE).traces
VARIABLES tr, out
T == Traces[tr]
Init == tr \in 1..Len(Traces) /\ out = "run"

(* owner[i] = the thread whose transaction is open after event i (0 = none); overlap = some event by another thread inside it *)
RECURSIVE Scan(_, _, _)
Scan(i, owner, bad) ==
  IF i > Len(T.ev) THEN bad
  ELSE LET e == T.ev[i] IN
       IF e.op = "done" THEN Scan(i + 1, IF owner = e.th THEN 0 ELSE owner, bad)
       ELSE IF e.op \in {"send", "recv"}
            THEN IF owner # 0 /\ owner # e.th THEN Scan(i + 1, owner, bad \cup {i})
                 ELSE Scan(i + 1, IF e.op = "send" THEN e.th ELSE owner, bad)
       ELSE Scan(i + 1, owner, bad)
Fails ==
  (IF Scan(1, 0, {}) # {} THEN {"Mutex"} ELSE {})
  \cup (IF \E k \in 1..Len(T.calls) : T.calls[k].kind = "reply" /\ T.calls[k].gotv # T.calls[k].want THEN {"OwnReply"} ELSE {})
  \cup (IF \E k \in 1..Len(T.calls) : T.calls[k].kind \notin {"reply", "connfail", "broadcast", "badreq"} THEN {"NoLoss"} ELSE {})
  \cup (IF Cardinality({k \in 1..Len(T.calls) : T.calls[k].kind = "connfail"}) > T.connfail THEN {"NoLoss"} ELSE {})
  \cup (IF Cardinality({k \in 1..Len(T.calls) : T.calls[k].kind = "badreq"}) > 1 THEN {"NoLoss"} ELSE {})
  \cup (IF Len(T.calls) # T.nthreads * T.k THEN {"NoLoss"} ELSE {})
  \cup (IF \E i \in 1..Len(T.ev) : T.ev[i].op = "deadlock" THEN {"NoDeadlock"} ELSE {})
  \cup (IF \E a, b \in 1..Len(T.frames) : a < b /\ T.frames[a] = T.frames[b] THEN {"NoDup"} ELSE {})
Next == /\ out = "run"
        /\ PrintT("VERDICT " \o ToJson([id |-> T.id, status |-> IF Fails = {} THEN "OK" ELSE "FAIL", step |-> 1, clauses |-> Fails,
                                       detail |-> [overlaps |-> Scan(1, 0, {})]]))
        /\ out' = "done" /\ UNCHANGED tr
Spec == Init /\ [][Next]_<<tr, out>>
=============================================================================
