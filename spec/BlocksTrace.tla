----------------------------- MODULE BlocksTrace -----------------------------
(***************************************************************************)
(* Trace validation for C18.  Three kinds of trace (field `level'):        *)
(*  "block"  : operations on one data block                                 *)
(*  "ctx"    : operations on a slave context (function code + offset)       *)
(*  "server" : item access on a server context                              *)
(* Events carry the arguments and the observed result / exception name /   *)
(* changed cells; the model state is advanced by the specification.        *)
(***************************************************************************)
EXTENDS Blocks, Integers, TLC, Json, IOUtils

TraceData == JsonDeserialize(IOEnv.TRACE_FILE)
Traces == TraceData.traces

PairsToFn(ps) == [a \in {ps[k][1] : k \in 1..Len(ps)} |-> ps[CHOOSE k \in 1..Len(ps) : ps[k][1] = a][2]]
MkBlock(jb) ==
  IF jb.kind = "seq"
  THEN [kind |-> "seq", start |-> jb.start, size |-> jb.size, def |-> jb.def, zero |-> 0, ov |-> PairsToFn(jb.ov), fail |-> FALSE]
  ELSE [kind |-> "sparse", keys |-> Seq2Set(jb.keys), def |-> jb.def, zero |-> 0, ov |-> PairsToFn(jb.ov), fail |-> FALSE]
MkCtx(jc) == [zero |-> jc.zero = 1, map |-> jc.map, blocks |-> [id \in DOMAIN jc.blocks |-> MkBlock(jc.blocks[id])]]
MkSrv(js) == [single |-> js.single = 1, reg |-> PairsToFn(js.reg)]

VARIABLES tr, i, st, out
vars == <<tr, i, st, out>>

T == Traces[tr]
Init == /\ tr \in 1..Len(Traces)
        /\ i = 1
        /\ st = CASE Traces[tr].level = "block" -> MkBlock(Traces[tr].cfg)
                  [] Traces[tr].level = "ctx" -> MkCtx(Traces[tr].cfg)
                  [] Traces[tr].level = "server" -> MkSrv(Traces[tr].cfg)
        /\ out = "run"

BlockChg(b1, b2) == {<<a, Val(b2, a)>> : a \in {x \in (DOMAIN b1.ov) \cup (DOMAIN b2.ov) : Val(b1, x) # Val(b2, x)}}
CtxChg(c1, c2) == {<<cell[1], cell[2], Val(c2.blocks[cell[1]], cell[2])>> : cell \in Changed(c1, c2)}
Bool(x) == IF x THEN 1 ELSE 0

(* Eval(s, ev) = [fail |-> set of clause names, st |-> next model state, judged |-> BOOLEAN] *)
Eval(s, ev) ==
  LET ok(f, s2) == [fail |-> f, st |-> s2, judged |-> TRUE]
      skip == [fail |-> {}, st |-> s, judged |-> FALSE]
      raisedC == IF ev.raised # "" THEN {"NoRaise"} ELSE {}
  IN
  CASE ev.op = "validate" ->
         IF ev.n < 1 THEN skip
         ELSE ok(raisedC \cup (IF ev.raised = "" /\ ev.res # Bool(RangeOK(s, ev.a, ev.n)) THEN {"Validate"} ELSE {}), s)
    [] ev.op = "get" ->
         IF ~RangeOK(s, ev.a, ev.n) THEN skip
         ELSE ok(raisedC \cup (IF ev.raised = "" /\ ev.res # GetVals(s, ev.a, ev.n) THEN {"GetValues"} ELSE {})
                  \cup (IF ev.ext # 0 \/ ev.chg # <<>> THEN {"Extent"} ELSE {}), s)
    [] ev.op = "set" ->
         IF ~RangeOK(s, ev.a, Len(ev.vals)) THEN skip
         ELSE LET s2 == SetVals(s, ev.a, ev.vals) IN
              ok(raisedC \cup (IF Seq2Set(ev.chg) # BlockChg(s, s2) THEN {"SetValues"} ELSE {})
                  \cup (IF ev.ext # 0 THEN {"Extent"} ELSE {}), s2)
    [] ev.op = "reset" ->
         LET s2 == ResetBlock(s) IN
         ok(raisedC \cup (IF Seq2Set(ev.chg) # BlockChg(s, s2) THEN {"Reset"} ELSE {})
             \cup (IF ev.ext # 0 THEN {"Extent"} ELSE {}), s2)
    [] ev.op = "cvalidate" ->
         IF ev.n < 1 THEN skip
         ELSE ok(raisedC \cup (IF ev.raised = "" /\ ev.res # Bool(CtxOK(s, ev.fc, ev.a, ev.n)) THEN {"CtxValidate"} ELSE {}), s)
    [] ev.op = "cget" ->
         IF ~CtxOK(s, ev.fc, ev.a, ev.n) THEN skip
         ELSE ok(raisedC \cup (IF ev.raised = "" /\ ev.res # CtxGet(s, ev.fc, ev.a, ev.n) THEN {"CtxGet"} ELSE {})
                  \cup (IF ev.ext # 0 \/ ev.chg # <<>> THEN {"Extent"} ELSE {}), s)
    [] ev.op = "cset" ->
         IF ~CtxOK(s, ev.fc, ev.a, Len(ev.vals)) THEN skip
         ELSE LET s2 == CtxSet(s, ev.fc, ev.a, ev.vals) IN
              ok(raisedC \cup (IF Seq2Set(ev.chg) # CtxChg(s, s2) THEN {"CtxSet"} ELSE {})
                  \cup (IF ev.ext # 0 THEN {"Extent"} ELSE {}), s2)
    [] ev.op = "creset" ->
         LET s2 == [s EXCEPT !.blocks = [id \in DOMAIN s.blocks |-> ResetBlock(s.blocks[id])]] IN
         ok(raisedC \cup (IF Seq2Set(ev.chg) # CtxChg(s, s2) THEN {"CtxReset"} ELSE {})
             \cup (IF ev.ext # 0 THEN {"Extent"} ELSE {}), s2)       \* (zero-mode and the table map are not touched: later events show it)
    [] ev.op = "sget" -> ok(IF ev.res # SrvGet(s, ev.u) THEN {"Routing"} ELSE {}, s)
    [] ev.op = "shas" -> ok(IF ev.res # Bool(SrvHas(s, ev.u)) THEN {"Contains"} ELSE {}, s)
    [] ev.op = "sset" ->
         ok(IF ev.res # (IF SrvSetOK(s, ev.u) THEN "ok" ELSE NoSuch) THEN {"Registration"} ELSE {}, SrvSet(s, ev.u, ev.c))
    [] ev.op = "sdel" ->
         IF ~s.single /\ ev.u \in DOMAIN s.reg
         THEN ok(IF ev.res # "ok" THEN {"Delete"} ELSE {}, SrvDel(s, ev.u))
         ELSE [fail |-> {}, st |-> s, judged |-> TRUE]     \* deleting what is not registered: result unconstrained, nothing may change
    [] ev.op = "slist" ->
         ok(IF Seq2Set(ev.res) # (DOMAIN s.reg) \/ Len(ev.res) # Cardinality(DOMAIN s.reg) THEN {"Registered"} ELSE {}, s)

Verdict(status, step, clauses, detail) ==
  PrintT("VERDICT " \o ToJson([id |-> T.id, status |-> status, step |-> step, clauses |-> clauses, detail |-> detail]))

Step ==
  /\ out = "run"
  /\ i <= Len(T.ev)
  /\ LET ev == T.ev[i]
         e == Eval(st, ev)
         (* a read-only call outside the judged domain (count < 1, a range the block does not hold) that left every cell   *)
         (* alone is skipped and the history goes on; anything else outside the domain ends the judgement of this history *)
         pureSkip == ~e.judged /\ ev.op \in {"validate", "cvalidate", "get", "cget"} /\ ev.chg = <<>> /\ ev.ext = 0
     IN IF pureSkip
        THEN /\ UNCHANGED st
             /\ IF i = Len(T.ev) THEN Verdict("OK", i, {}, [n |-> i]) /\ out' = "done" ELSE out' = "run"
        ELSE IF ~e.judged
        THEN Verdict("UNJUDGED", i, {}, [ev |-> ev]) /\ out' = "done" /\ UNCHANGED st
        ELSE IF e.fail # {}
        THEN Verdict("FAIL", i, e.fail, [ev |-> ev]) /\ out' = "done" /\ UNCHANGED st
        ELSE /\ st' = e.st
             /\ IF i = Len(T.ev) THEN Verdict("OK", i, {}, [n |-> i]) /\ out' = "done" ELSE out' = "run"
  /\ i' = i + 1
  /\ UNCHANGED tr
Empty == /\ out = "run" /\ Len(T.ev) = 0 /\ Verdict("OK", 0, {}, [n |-> 0]) /\ out' = "done" /\ UNCHANGED <<tr, i, st>>
Next == Step \/ Empty
Spec == Init /\ [][Next]_vars
=============================================================================
