SPECIFICATION Spec
CONSTANTS
  Dev = {}
  MaxReadBits = 3
  MaxReadRegs = 2
  MaxWriteBits = 3
  MaxWriteRegs = 2
  MaxRWRead = 2
  MaxRWWrite = 2
INVARIANT ModelIsGhost
INVARIANT Registration
PROPERTY ValidateIff
PROPERTY GetInOrder
PROPERTY SetFrame
PROPERTY Routing
VIEW View
CHECK_DEADLOCK FALSE
