--------------------------- MODULE ThreadsImplTrace ---------------------------
(***************************************************************************)
(* Refinement-style trace validation for C15: is the recorded execution of *)
(* real threads on one real synchronous TCP client a behaviour of          *)
(* ThreadsImpl?  The harness logs, in the order they happened,             *)
(*   [th, op]  op \in "lock" (the outermost acquire of the transaction     *)
(*             lock succeeded), "unlock" (its outermost release),          *)
(*             "connect" (a connection is opened), "send" (a request frame *)
(*             is written), "done" (the call returned; res \in "own" |     *)
(*             "other" | "error")                                          *)
(* The code does not log its connection checks, the arrival of the reply,  *)
(* the empty read or the failed attempt: those steps of the model are      *)
(* composed into the next logged event.  What the peer did with a          *)
(* transmission (answered / not) is not logged either: both successors are *)
(* kept, so the validator carries the SET of model states compatible with  *)
(* the events so far; the trace is rejected at the first event that empties *)
(* it.                                                                     *)
(***************************************************************************)
EXTENDS ThreadsImpl, TLC, Json, IOUtils

Traces == JsonDeserialize(IOEnv.TRACE_FILE).traces
VARIABLES tr, i, S, out
vars == <<tr, i, S, out>>
T == Traces[tr]
Init == tr \in 1..Len(Traces) /\ i = 1 /\ S = {InitSt} /\ out = "run"

RECURSIVE VC(_)
VC(s) == IF FVanish(s) = {} THEN s ELSE VC(CHOOSE x \in FVanish(s) : TRUE)       \* stale replies are gone before anything is read

Then(F(_, _), X, t) == UNION {F(x, t) : x \in X}
Last(q) == q[Len(q)]

Succ(s0, e) ==
  LET t == e.th
      s == VC(s0)
  IN
  CASE e.op = "lock" -> FAcqA(s, t) \cup FAcqB(s, t) \cup FReacq(s, t)
    [] e.op = "connect" ->
         Then(FOpenA, FCheckA(s, t), t) \cup Then(FOpenB, FCheckB(s, t), t)
         \cup Then(FOpenB, Then(FCheckB, FFail(s, t), t), t)
    [] e.op = "send" ->
         FSend(s, t) \cup Then(FSend, FCheckB(s, t), t)
         \cup Then(FSend, Then(FCheckB, FTimeOut(s, t), t), t)            \* a retransmission after an empty read
    [] e.op = "unlock" ->
         FRelA(s, t) \cup Then(FRelA, FCheckA(s, t), t)
         \cup Then(FRelB, FRecv(s, t), t)
         \cup Then(FRelB, {x \in FTimeOut(s, t) : x.pc[t] = "relB"}, t)
    [] e.op = "done" ->
         IF s.pc[t] # "idle" \/ s.got[t] = <<>> THEN {}
         ELSE IF (e.res = "own") = (Last(s.got[t]) = t) /\ (e.res = "error") = (Last(s.got[t]) = 0) THEN {s} ELSE {}
    [] OTHER -> {s}

Verdict(status, step, clauses, detail) ==
  PrintT("VERDICT " \o ToJson([id |-> T.id, status |-> status, step |-> step, clauses |-> clauses, detail |-> detail]))

Step ==
  /\ out = "run" /\ i <= Len(T.ev)
  /\ LET e == T.ev[i]
         S2 == UNION {Succ(s, e) : s \in S}
     IN IF S2 = {}
        THEN /\ Verdict("FAIL", i, {"NotABehaviour"},
                        [ev |-> e, pcs |-> {s.pc : s \in S}, locks |-> {s.lock : s \in S}, conns |-> {s.conn : s \in S}])
             /\ out' = "done" /\ S' = S
        ELSE /\ S' = S2
             /\ IF i = Len(T.ev)
                THEN Verdict(IF \A s \in S2 : MutexSt(s) /\ OwnReplySt(s) THEN "OK" ELSE "FAIL", i,
                             IF \A s \in S2 : MutexSt(s) /\ OwnReplySt(s) THEN {} ELSE {"ModelStateViolatesC15"}, [n |-> i, states |-> Cardinality(S2)])
                     /\ out' = "done"
                ELSE out' = "run"
  /\ i' = i + 1 /\ UNCHANGED tr
Empty == out = "run" /\ Len(T.ev) = 0 /\ Verdict("OK", 0, {}, [n |-> 0]) /\ out' = "done" /\ UNCHANGED <<tr, i, S>>
Spec == Init /\ [][Step \/ Empty]_vars
=============================================================================
