----------------------------- MODULE PayloadMC -----------------------------
(***************************************************************************)
(* Exhaustive model for C19: a builder (state = sequence of chunks), then  *)
(* a decoder (state = pointer into the transported bytes) that is asked    *)
(* for the types that were added, in order.  Every sequence of at most     *)
(* MaxVals typed values, all four byte-order x word-order combinations,    *)
(* transport as raw bytes and as registers (odd totals included: the       *)
(* register image completes an odd payload with one zero byte, the decoder *)
(* then never reads the pad).                                              *)
(*                                                                         *)
(* Values are symbolic: the k-th value of a payload is the image           *)
(* <<16k+1, 16k+2, ...>>, so all bytes of a payload are pairwise distinct  *)
(* and non-zero: any misplaced, duplicated or dropped byte is visible, and *)
(* since Layout/Unlayout only move bytes the result transfers to every     *)
(* concrete value.  Bit groups are concrete patterns of 3, 8 and 11 bits.  *)
(***************************************************************************)
EXTENDS Payload, TLC, Json

CONSTANTS MaxVals,        \* longest payload explored (number of values)
          Export          \* TRUE: print every built payload as JSON (behaviour generation)

VARIABLES bo, wo,         \* the orders builder and decoder are configured with
          added,          \* ghost: the values handed to add_*, in order: [type, img]
          chunks,         \* builder state: one chunk of bytes per add
          phase,          \* "build" | "bytes" | "regs"
          src,            \* the byte string the decoder works on
          ptr,            \* decoder state
          decoded         \* ghost: <<type, image>> of every decode call so far

vars == <<bo, wo, added, chunks, phase, src, ptr, decoded>>

Sym(k, n) == [j \in 1..n |-> 16 * k + j]
BitPats == { <<1, 0, 1>>, <<1, 0, 1, 1, 0, 0, 1, 0>>, <<0, 1, 1, 0, 1, 0, 0, 1, 1, 1, 0>> }
Choices(k) == {[type |-> t, img |-> Sym(k, TypeSize(t))] : t \in FixedTypes}
              \cup {[type |-> "str", img |-> Sym(k, n)] : n \in 1..3}
              \cup {[type |-> "bits", img |-> b] : b \in BitPats}

Payload == Flatten(chunks)                      \* to_string()
Expected == Flatten([i \in 1..Len(added) |-> Items(added[i].type, added[i].img)])

Init == /\ bo \in Orders /\ wo \in Orders
        /\ added = <<>> /\ chunks = <<>> /\ phase = "build"
        /\ src = <<>> /\ ptr = 0 /\ decoded = <<>>

Add == /\ phase = "build" /\ Len(added) < MaxVals
       /\ \E x \in Choices(Len(added) + 1) :
            /\ added' = Append(added, x)
            /\ chunks' = Append(chunks, Layout(x.type, x.img, bo, wo))
       /\ UNCHANGED <<bo, wo, phase, src, ptr, decoded>>

Open == /\ phase = "build" /\ Len(added) > 0
        /\ \E via \in {"bytes", "regs"} :
             /\ phase' = via
             /\ src' = IF via = "bytes" THEN Payload ELSE RegBytes(Registers(Payload))
        /\ ptr' = 0 /\ decoded' = <<>>
        /\ UNCHANGED <<bo, wo, added, chunks>>

Dec == /\ phase # "build" /\ Len(decoded) < Len(Expected)
       /\ LET t == Expected[Len(decoded) + 1][1]
              n == DecSize(t, Len(Expected[Len(decoded) + 1][2]))
          IN  /\ ptr + n <= Len(src)            \* otherwise the decoder is stuck: caught by Progress
              /\ decoded' = Append(decoded, <<t, Unlayout(t, Slice(src, ptr + 1, n), bo, wo)>>)
              /\ ptr' = ptr + n
       /\ UNCHANGED <<bo, wo, added, chunks, phase, src>>

Next == Add \/ Open \/ Dec
Spec == Init /\ [][Next]_vars

(* ---- properties -------------------------------------------------------- *)
TypeOK == /\ Len(chunks) = Len(added)
          /\ \A i \in 1..Len(added) : WellTyped(added[i].type, added[i].img)
          /\ ptr \in 0..Len(src)

(* Unlayout is the inverse of Layout, sizes are preserved *)
LayoutInverse ==
  \A i \in 1..Len(added) :
     /\ Len(chunks[i]) = ByteLen(added[i].type, added[i].img)
     /\ Unlayout(added[i].type, chunks[i], bo, wo) = Canon(added[i].type, added[i].img)

(* the register image is the conventional one (literal table); order-free types ignore the orders *)
ConventionalLayout ==
  \A i \in 1..Len(added) :
     LET t == added[i].type  img == added[i].img IN
     CASE t \in WordTypes -> chunks[i] = ConventionalImage(img, bo, wo)
       [] t = "bits" -> chunks[i] = PackBits(img)
       [] OTHER -> chunks[i] = img

(* registers: every payload byte sits in a whole register, high byte first, in order; *)
(* an odd payload gets exactly one zero byte at the very end                          *)
RegisterImage ==
  LET b == Payload  r == Registers(b) IN
  /\ Len(r) = (Len(b) + 1) \div 2
  /\ \A k \in 1..Len(r) : r[k] = 256 * b[2*k - 1] + (IF 2*k <= Len(b) THEN b[2*k] ELSE 0)
  /\ Take(RegBytes(r), Len(b)) = b
  /\ Len(RegBytes(r)) = Len(b) + (Len(b) % 2)

(* decoder pointer arithmetic: the pointer is the total size of what was decoded *)
DecodedSizes == [i \in 1..Len(decoded) |-> DecSize(decoded[i][1], Len(decoded[i][2]))]
PointerSum == phase # "build" => ptr = SumSeq(DecodedSizes)
PointerStep == [][ (phase # "build" /\ phase' = phase) =>
                     /\ Len(decoded') = Len(decoded) + 1
                     /\ ptr' = ptr + DecSize(decoded'[Len(decoded')][1], Len(decoded'[Len(decoded')][2])) ]_vars

(* what was decoded so far is what was added, in order; at the end everything came back *)
DecodedIsAdded == phase # "build" => decoded = Take(Expected, Len(decoded))
Progress == (phase # "build" /\ Len(decoded) < Len(Expected)) => ENABLED Dec
Complete == (phase # "build" /\ Len(decoded) = Len(Expected)) =>
               /\ decoded = Expected
               /\ ptr = Len(Payload)
               /\ ptr <= Len(src) /\ Len(src) <= ptr + 1
               /\ (Len(src) = ptr + 1 => phase = "regs" /\ src[Len(src)] = 0)

(* ---- behaviour generation ---------------------------------------------- *)
ExportState == (Export /\ phase = "build" /\ Len(added) > 0) =>
                  PrintT(<<"SEQ", ToJson([bo |-> bo, wo |-> wo, items |-> added])>>)
=============================================================================
