----------------------------- MODULE ServerTrace -----------------------------
(***************************************************************************)
(* Trace validation for the server front-ends (C09, C10, C12, C17).        *)
(*                                                                         *)
(* trace = [id, mode, fe, kind, cfg, units, sent, ev]                      *)
(*   mode  "strict"  : every connection carries only valid frames; every   *)
(*                     frame wholly received must be served in that event  *)
(*         "hostile" : arbitrary bytes with some valid frames embedded     *)
(*   fe    the front-end driven (informational), kind the framing          *)
(*   cfg   [single, hosted, broadcast, ignore] (0/1 flags, hosted a list)  *)
(*   units << <<unit id, context cfg>>, ... >>   (single mode: unit id 0)  *)
(*   sent  per connection: ghost list of the frames the peer sent          *)
(*         [start, len, uid, tid, pid, pdu, exp]                            *)
(*   ev    [op |-> "feed" | "probe", conn, n (bytes handed over),          *)
(*          writes << [conn, bytes] >> (one entry per write call),          *)
(*          raised, closed, chg << <<uid, blk, addr, new>> >>, ext]         *)
(***************************************************************************)
EXTENDS Server, Framing, TLC, Json, IOUtils

Traces == JsonDeserialize(IOEnv.TRACE_FILE).traces
VARIABLES tr, i, tab, fed, done, written, out
vars == <<tr, i, tab, fed, done, written, out>>
T == Traces[tr]

PairsToFn(ps) == [a \in {ps[k][1] : k \in 1..Len(ps)} |-> ps[CHOOSE k \in 1..Len(ps) : ps[k][1] = a][2]]
MkBlock(jb) ==
  IF jb.kind = "seq"
  THEN [kind |-> "seq", start |-> jb.start, size |-> jb.size, def |-> jb.def, ov |-> PairsToFn(jb.ov), fail |-> jb.fail = 1]
  ELSE [kind |-> "sparse", keys |-> Seq2Set(jb.keys), def |-> jb.def, ov |-> PairsToFn(jb.ov), fail |-> jb.fail = 1]
MkCtx(jc) == [zero |-> jc.zero = 1, map |-> jc.map, blocks |-> [id \in DOMAIN jc.blocks |-> MkBlock(jc.blocks[id])]]
Cfg == [single |-> T.cfg.single = 1, hosted |-> Seq2Set(T.cfg.hosted), broadcast |-> T.cfg.broadcast = 1, ignore |-> T.cfg.ignore = 1]

NConn == Len(T.sent)
Init == /\ tr \in 1..Len(Traces) /\ i = 1
        /\ tab = [u \in {T.units[k][1] : k \in 1..Len(T.units)} |-> MkCtx(PairsToFn(T.units)[u])]
        /\ fed = [c \in 1..Len(Traces[tr].sent) |-> 0]
        /\ done = [c \in 1..Len(Traces[tr].sent) |-> 0]
        /\ written = [c \in 1..Len(Traces[tr].sent) |-> <<>>]     \* every response frame written to c so far (mode "resync")
        /\ out = "run"

(* ---- one frame per write: parse it by the grammar of the framing ---------- *)
BadFrame == [ok |-> FALSE, uid |-> 0, tid |-> 0, pid |-> 0, pdu |-> <<>>]
ParseFrame(kind, b) ==
  CASE kind = "tcp" ->
         IF Len(b) >= 8 /\ U16At(b, 5) = Len(b) - 6
         THEN [ok |-> TRUE, uid |-> b[7], tid |-> U16At(b, 1), pid |-> U16At(b, 3), pdu |-> Drop(b, 7)] ELSE BadFrame
    [] kind = "rtu" ->
         IF Len(b) >= 4 /\ SubSeq(b, Len(b) - 1, Len(b)) = CrcWire(SubSeq(b, 1, Len(b) - 2))
         THEN [ok |-> TRUE, uid |-> b[1], tid |-> 0, pid |-> 0, pdu |-> SubSeq(b, 2, Len(b) - 2)] ELSE BadFrame
    [] kind = "ascii" ->
         IF Len(b) >= 9 /\ b[1] = Colon /\ b[Len(b) - 1] = CR /\ b[Len(b)] = LF /\ IsHexStr(SubSeq(b, 2, Len(b) - 2))
         THEN LET raw == HexDec(SubSeq(b, 2, Len(b) - 2)) IN
              IF LRC(SubSeq(raw, 1, Len(raw) - 1)) = raw[Len(raw)]
              THEN [ok |-> TRUE, uid |-> raw[1], tid |-> 0, pid |-> 0, pdu |-> SubSeq(raw, 2, Len(raw) - 1)] ELSE BadFrame
         ELSE BadFrame
    [] kind = "bin" ->
         IF Len(b) >= 6 /\ b[1] = LBrace /\ b[Len(b)] = RBrace
            /\ SubSeq(b, Len(b) - 2, Len(b) - 1) = CrcWire(SubSeq(b, 2, Len(b) - 3))
         THEN [ok |-> TRUE, uid |-> b[2], tid |-> 0, pid |-> 0, pdu |-> SubSeq(b, 3, Len(b) - 3)] ELSE BadFrame
    [] kind = "tls" -> IF Len(b) >= 1 THEN [ok |-> TRUE, uid |-> 0, tid |-> 0, pid |-> 0, pdu |-> b] ELSE BadFrame

ChgOf(t1, t2) ==
  UNION {{<<u, cell[1], cell[2], Val(t2[u].blocks[cell[1]], cell[2])>> : cell \in Changed(t1[u], t2[u])} : u \in DOMAIN t1}

(* ---- strict mode: fold Serve over the newly completed frames ------------- *)
(* returns the set of [rsps (seq of frames), tab] outcomes the specification allows *)
RECURSIVE ServeAll(_, _, _)
ServeAll(frames, k, st) ==     \* st = set of [rsps, tab]
  IF k > Len(frames) THEN st
  ELSE ServeAll(frames, k + 1,
                UNION {{[rsps |-> s.rsps \o o.rsp, tab |-> o.tab] : o \in Serve(Cfg, s.tab, frames[k])} : s \in st})

NewFrames(c, nfed) ==
  LET all == T.sent[c]
      idx == {k \in (done[c] + 1)..Len(all) : all[k].start + all[k].len - 1 <= nfed}
  IN [k \in 1..Cardinality(idx) |-> all[done[c] + k]]

WritesTo(ev, c) == SelectSeq(ev.writes, LAMBDA w : w.conn = c)
Elsewhere(ev, c) == SelectSeq(ev.writes, LAMBDA w : w.conn # c)

EvalStrict(ev) ==
  LET c == ev.conn
      nfed == fed[c] + ev.n
      fr == NewFrames(c, nfed)
      good == SelectSeq(fr, LAMBDA f : f.exp = 1)
      outs == ServeAll(good, 1, {[rsps |-> <<>>, tab |-> tab]})
      ws == WritesTo(ev, c)
      parsed == [k \in 1..Len(ws) |-> ParseFrame(T.kind, ws[k].bytes)]
      wellformed == \A k \in 1..Len(ws) : parsed[k].ok
      hdrMatch(o) == Len(o.rsps) = Len(ws) /\ \A k \in 1..Len(ws) : HeaderOK(T.kind, parsed[k], o.rsps[k])
      fullMatch(o) == Len(o.rsps) = Len(ws) /\ \A k \in 1..Len(ws) : RspOK(T.kind, parsed[k], o.rsps[k])
      storeMatch(o) == Seq2Set(ev.chg) = ChgOf(tab, o.tab)
      best == IF \E o \in outs : fullMatch(o) /\ storeMatch(o) THEN CHOOSE o \in outs : fullMatch(o) /\ storeMatch(o)
              ELSE CHOOSE o \in outs : TRUE
      fails == (IF ev.raised # "" THEN {"NoEscape"} ELSE {})
               \cup (IF Elsewhere(ev, c) # <<>> THEN {"WrongDestination"} ELSE {})
               \cup (IF ~wellformed THEN {"NotAResponseFrame"}
                     ELSE IF ~\E o \in outs : hdrMatch(o) THEN {"OneResponsePerRequest"}
                     ELSE IF ~\E o \in outs : fullMatch(o) THEN {"ResponseData"} ELSE {})
               \cup (IF ~\E o \in outs : storeMatch(o) THEN {"UnitStore"}
                     ELSE IF wellformed /\ (\E o \in outs : fullMatch(o)) /\ ~(\E o \in outs : fullMatch(o) /\ storeMatch(o))
                     THEN {"UnitStore"} ELSE {})
               \cup (IF ev.ext # 0 THEN {"Extent"} ELSE {})
  IN [fail |-> fails, tab |-> best.tab, fed |-> [fed EXCEPT ![c] = nfed], done |-> [done EXCEPT ![c] = @ + Len(fr)],
      exp |-> {o.rsps : o \in outs}]

(* ---- hostile mode ------------------------------------------------------------ *)
TcpSlices(b) ==
  {[uid |-> b[o + 6], tid |-> U16At(b, o), pid |-> U16At(b, o + 2), pdu |-> SubSeq(b, o + 7, o + 5 + U16At(b, o + 4))] :
     o \in {j \in 1..(Len(b) - 7) : U16At(b, j + 4) >= 2 /\ j + 5 + U16At(b, j + 4) <= Len(b)}}
(* ASCII: every ':' ... CR LF segment that is hexadecimal (either case) with a matching LRC *)
AsciiSlices(b) ==
  LET starts == {j \in 1..Len(b) : b[j] = Colon}
      endOf(j) == IF \E k \in (j + 1)..(Len(b) - 1) : b[k] = CR /\ b[k + 1] = LF
                  THEN CHOOSE k \in (j + 1)..(Len(b) - 1) : b[k] = CR /\ b[k + 1] = LF
                                                            /\ \A m \in (j + 1)..(k - 1) : ~(b[m] = CR /\ b[m + 1] = LF)
                  ELSE 0
      good(j) == endOf(j) # 0 /\ endOf(j) - j - 1 >= 6 /\ IsHexStr(SubSeq(b, j + 1, endOf(j) - 1))
                 /\ LET raw == HexDec(SubSeq(b, j + 1, endOf(j) - 1)) IN LRC(SubSeq(raw, 1, Len(raw) - 1)) = raw[Len(raw)]
  IN {LET raw == HexDec(SubSeq(b, j + 1, endOf(j) - 1)) IN
      [uid |-> raw[1], tid |-> 0, pid |-> 0, pdu |-> SubSeq(raw, 2, Len(raw) - 1)] : j \in {x \in starts : good(x)}}

(* RTU: truncated or damaged frames can combine with the bytes that follow them into a frame whose CRC is right by construction    *)
(* (a frame cut one byte short, followed by a frame that starts with the missing CRC byte).  Searching every slice for a valid    *)
(* CRC is expensive, so it is done lazily and pre-filtered: only when no ghost frame explains an observation, and only at offsets  *)
(* whose unit / function bytes fit it.                                                                                             *)
RtuSlicesFor(b, uids, fcs) ==
  {[uid |-> b[o[1]], tid |-> 0, pid |-> 0, pdu |-> SubSeq(b, o[1] + 1, o[1] + o[2] - 3)] :
     o \in {x \in (1..Len(b)) \X (4..256) :
              /\ x[1] + x[2] - 1 <= Len(b) /\ b[x[1]] \in uids /\ b[x[1] + 1] \in fcs
              /\ SubSeq(b, x[1], x[1] + x[2] - 1) = RtuFrame(b[x[1]], SubSeq(b, x[1] + 1, x[1] + x[2] - 3))}}

(* value a valid write frame would store in cell <<u, blk, a>>, or -1 *)
WritesCell(f, u, blk, a, v) ==
  LET r0 == ParseReq(f.pdu)
      (* bytes after the announced byte count are not part of the request (a corrupted MBAP length can make a frame swallow *)
      (* what follows it); the write it prescribes is the one of its well-formed prefix                                      *)
      r == IF r0.k \in {"wn", "rw"} /\ Len(r0.data) > r0.bc THEN [r0 EXCEPT !.data = Take(r0.data, r0.bc)] ELSE r0
  IN
  /\ Judged(r) /\ r.k \in {"w1", "wn", "rw", "mask"}
  /\ Target(Cfg, f.uid) \in {"only", "unit", "broadcast"}
  /\ (Target(Cfg, f.uid) = "broadcast" \/ Key(Cfg, f.uid) = u)
  /\ u \in DOMAIN tab
  /\ LET e == Exec(tab[u], r) IN ~IsExc(e.rsp) /\ <<blk, a>> \in Addressed(tab[u], r)
        /\ (r.k = "mask" \/ Val(e.ctx.blocks[blk], a) = v)
ApplyChg(t, chg) ==
  [u \in DOMAIN t |->
     [t[u] EXCEPT !.blocks = [id \in DOMAIN t[u].blocks |->
        LET mine == {x \in Seq2Set(chg) : x[1] = u /\ x[2] = id} IN
        [t[u].blocks[id] EXCEPT !.ov = [a \in (DOMAIN @) \cup {x[3] : x \in mine} |->
              IF \E x \in mine : x[3] = a THEN (CHOOSE x \in mine : x[3] = a)[4] ELSE @[a]]]]]]
EvalHostile(ev) ==
  LET c == ev.conn
      nfed == fed[c] + ev.n
      fr == NewFrames(c, nfed)
      ghost == SelectSeq(T.sent[c], LAMBDA f : f.exp = 1 /\ f.start + f.len - 1 <= nfed)
      (* the requests the input justifies: the valid frames the peer embedded, and on TCP (which has no checksum) *)
      (* every slice of the bytes received so far whose MBAP length is consistent with what follows it          *)
      cand == {[uid |-> ghost[k].uid, tid |-> ghost[k].tid, pid |-> ghost[k].pid, pdu |-> ghost[k].pdu] : k \in 1..Len(ghost)}
              \cup (IF T.kind = "tcp" THEN TcpSlices(SubSeq(T.streams[c], 1, nfed)) ELSE {})
              \cup (IF T.kind = "ascii" THEN AsciiSlices(SubSeq(T.streams[c], 1, nfed)) ELSE {})
      ws == WritesTo(ev, c)
      parsed == [k \in 1..Len(ws) |-> ParseFrame(T.kind, ws[k].bytes)]
      rtuNow == SubSeq(T.streams[c], 1, nfed)
      justifiedWrite(x) == \/ \E f \in cand : WritesCell(f, x[1], x[2], x[3], x[4])
                           \/ T.kind = "rtu" /\ \E f \in RtuSlicesFor(rtuNow, 0..255, {5, 6, 15, 16, 22, 23}) :
                                                   WritesCell(f, x[1], x[2], x[3], x[4])
      answersSome(p) == \/ \E f \in cand : HeaderOK(T.kind, p, f)
                        \/ T.kind = "rtu" /\ p.pdu # <<>> /\ \E f \in RtuSlicesFor(rtuNow, {p.uid}, {p.pdu[1], p.pdu[1] % 128}) : HeaderOK(T.kind, p, f)
      fails == (IF ev.raised # "" THEN {"NoEscape"} ELSE {})
               \cup (IF Elsewhere(ev, c) # <<>> THEN {"WrongDestination"} ELSE {})
               \cup (IF \E k \in 1..Len(ws) : ~parsed[k].ok THEN {"NotAResponseFrame"}
                     ELSE IF \E k \in 1..Len(ws) : ~answersSome(parsed[k]) THEN {"UnsolicitedResponse"} ELSE {})
               \cup (IF \E x \in Seq2Set(ev.chg) : ~justifiedWrite(x) THEN {"StoreOnlyByValidWrites"} ELSE {})
               \cup (IF ev.ext # 0 THEN {"Extent"} ELSE {})
  IN [fail |-> fails, tab |-> ApplyChg(tab, ev.chg), fed |-> [fed EXCEPT ![c] = nfed], done |-> [done EXCEPT ![c] = @ + Len(fr)],
      exp |-> {}]

(* the ghost frames must really be on the wire where the harness says (input builder re-checked against Framing!Build) *)
GhostOK == \A c \in 1..Len(T.sent) : \A k \in 1..Len(T.sent[c]) :
             LET f == T.sent[c][k] IN
             f.exp = 1 => SubSeq(T.streams[c], f.start, f.start + f.len - 1) = Build(T.kind, f.tid, f.pid, f.uid, f.pdu)

(* mode "resync" (C11 through a serving handler): hostile rules, plus: every valid request for a hosted unit that started more *)
(* than two maximum-size frames after the last garbage byte (T.g) and is wholly received must have been answered by now.     *)
(* The requests of such a history read distinct cells holding distinct values, so a response identifies its request.        *)
ResyncFails(ev, allouts) ==
  LET c == ev.conn
      nfed == fed[c] + ev.n
      fr == NewFrames(c, nfed)          \* the frames completed by this read (the handlers serve synchronously)
      late == {k \in 1..Len(fr) : fr[k].exp = 1 /\ fr[k].start > T.g + 2 * MaxFrame(T.kind)}
      ws == WritesTo(ev, c)
      answered(k) == LET f == fr[k]
                         e == Exec(tab[Key(Cfg, f.uid)], ParseReq(f.pdu)) IN
                     \E j \in 1..Len(ws) : LET p == ParseFrame(T.kind, ws[j].bytes) IN p.ok /\ p.uid = f.uid /\ p.pdu = Encode(e.rsp)
  IN IF ev.closed = 0 /\ (\E k \in late : ~answered(k)) THEN {"ServerResync"} ELSE {}
     \* (a stream handler may answer a protocol error by closing the connection - C12; a serial line cannot be closed)

Eval(ev) == IF T.mode = "strict" \/ ev.op = "probe" THEN EvalStrict(ev)
            ELSE IF T.mode = "resync"
                 THEN LET h == EvalHostile(ev)
                          allouts == written[ev.conn] \o [k \in 1..Len(WritesTo(ev, ev.conn)) |-> WritesTo(ev, ev.conn)[k].bytes]
                      IN [h EXCEPT !.fail = @ \cup ResyncFails(ev, allouts)]
                 ELSE EvalHostile(ev)

(* Force Listen Only Mode is a legitimate request: a device that received it owes nobody an answer any more (how the front-ends  *)
(* differ in honouring it is described in Device.tla).  Hostile input can contain it by accident - a bit flip turns the sub-       *)
(* function 0000 of a diagnostic request into 0004 and MBAP has no checksum - and then the probe proves nothing.                  *)
ListenOnlySeen ==
  \E c \in 1..Len(T.streams) :
     \/ \E k \in 1..Len(T.sent[c]) : IsListenOnlyReq(T.sent[c][k].pdu)
     \/ T.kind = "tcp" /\ \E f \in TcpSlices(T.streams[c]) : IsListenOnlyReq(f.pdu)
     \/ T.kind = "ascii" /\ \E f \in AsciiSlices(T.streams[c]) : IsListenOnlyReq(f.pdu)

Verdict(status, step, clauses, detail) ==
  PrintT("VERDICT " \o ToJson([id |-> T.id, status |-> status, step |-> step, clauses |-> clauses, detail |-> detail]))
Step ==
  /\ out = "run" /\ i <= Len(T.ev)
  /\ LET ev == T.ev[i]
         e == Eval(ev)
         f0 == IF ev.op = "probe" /\ e.fail # {}
               THEN (IF T.mode # "strict" /\ ListenOnlySeen THEN {} ELSE e.fail \cup {"Probe"})
               ELSE e.fail
         f == IF i = 1 /\ ~GhostOK THEN f0 \cup {"GhostFrames"} ELSE f0
     IN /\ IF f # {} THEN Verdict("FAIL", i, f, [expected |-> e.exp, op |-> ev.op]) /\ out' = "done"
           ELSE IF i = Len(T.ev) THEN Verdict("OK", i, {}, [n |-> i]) /\ out' = "done" ELSE out' = "run"
        /\ tab' = e.tab /\ fed' = e.fed /\ done' = e.done
        /\ written' = [written EXCEPT ![ev.conn] = @ \o [k \in 1..Len(WritesTo(ev, ev.conn)) |-> WritesTo(ev, ev.conn)[k].bytes]]
  /\ i' = i + 1 /\ UNCHANGED tr
Empty == out = "run" /\ Len(T.ev) = 0 /\ Verdict("OK", 0, {}, [n |-> 0]) /\ out' = "done" /\ UNCHANGED <<tr, i, tab, fed, done, written>>
Spec == Init /\ [][Step \/ Empty]_vars
=============================================================================
