SPECIFICATION Spec
CONSTANTS
  LogCap = 2
  MaxCnt = 3
  DDev = {}
INVARIANT TypeOK
INVARIANT LogBounded
INVARIANT LogVsCounter
PROPERTY ReadsChangeNothing
PROPERTY ClearClears
PROPERTY ListenSilent
PROPERTY StatusTruth
PROPERTY OthersAnswer
PROPERTY CounterTruth
PROPERTY EchoSubs
PROPERTY EventLogTruth
PROPERTY EventCountMonotone
PROPERTY ListenSticky
PROPERTY DeafForever
VIEW View
CHECK_DEADLOCK FALSE
