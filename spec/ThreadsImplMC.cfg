SPECIFICATION Spec
CONSTANTS
  NT = 3
  K = 2
  Drops = 1
  TDev = {}
INVARIANT Mutex
INVARIANT OwnReply
INVARIANT NoLossNoDup
PROPERTY Completes
