------------------------------ MODULE DeviceGen ------------------------------
(***************************************************************************)
(* Behaviour generation for the diagnostic state machine: random           *)
(* behaviours of DeviceMC (tlc -simulate) with a history of what the       *)
(* environment did (application calls, requests).  The harness replays     *)
(* each history into the real front-ends and DeviceTrace judges every      *)
(* step, so the behaviours TLC explored are also the ones the code ran.    *)
(***************************************************************************)
EXTENDS DeviceMC, Json
CONSTANT GenDepth
VARIABLE hist
gvars == <<dev, last, fe, hist>>
GInit == Init /\ hist = <<>>
GNext == /\ Len(hist) < GenDepth
         /\ \/ \E k \in {1, 6, 8} : EnvInc(k) /\ hist' = Append(hist, [op |-> "inc", a |-> k, pdu |-> <<>>])
            \/ \E e \in {4, 72} : EnvEvent(e) /\ hist' = Append(hist, [op |-> "event", a |-> e, pdu |-> <<>>])
            \/ \E b \in {0, 9} : EnvDiag(b) /\ hist' = Append(hist, [op |-> "diag", a |-> b, pdu |-> <<>>])
            \/ \E p \in Reqs : Request(p) /\ hist' = Append(hist, [op |-> "req", a |-> 0, pdu |-> p])
GSpec == GInit /\ [][GNext]_gvars
Export == Len(hist) = GenDepth => PrintT("HIST " \o ToJson([fe |-> fe, hist |-> hist]))
=============================================================================
