SPECIFICATION Spec
CONSTANTS
  Dev = {}
  MaxVals = 3
  Export = FALSE
INVARIANT TypeOK
INVARIANT LayoutInverse
INVARIANT ConventionalLayout
INVARIANT RegisterImage
INVARIANT PointerSum
INVARIANT DecodedIsAdded
INVARIANT Progress
INVARIANT Complete
PROPERTY PointerStep
CHECK_DEADLOCK FALSE
