SPECIFICATION Spec
CONSTANTS
  Dev = {}
  MaxReadBits = 3
  MaxReadRegs = 2
  MaxWriteBits = 3
  MaxWriteRegs = 2
  MaxRWRead = 2
  MaxRWWrite = 2
  Layouts <- MCLayouts
  ExportStates = FALSE
INVARIANT StoreIsLastWritten
INVARIANT ExtentStable
PROPERTY ReadFresh
PROPERTY EchoRule
PROPERTY RspRoundTrip
PROPERTY FrameRule
PROPERTY ExcCodeRule
PROPERTY ExcNoChange
CHECK_DEADLOCK FALSE
VIEW View
