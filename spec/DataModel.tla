----------------------------- MODULE DataModel -----------------------------
(***************************************************************************)
(* The Modbus data model (four tables of coils / discrete inputs / holding *)
(* registers / input registers) and the execution of the data-access       *)
(* function codes 1-6, 15, 16, 22, 23 against it, following the state      *)
(* diagrams of the Modbus Application Protocol v1.1b3 (sections 6.1-6.17): *)
(* first the quantity / value / byte-count test (exception 03), then the   *)
(* address test (exception 02), then the access (exception 04 when the     *)
(* device fails).                                                          *)
(*                                                                         *)
(* Block layer (C18): a block is a set of populated addresses with a       *)
(* value per populated address.  Context layer: a unit has four tables,    *)
(* each backed by a block (two tables may share one block), and a flag     *)
(* `zero' telling whether PDU address a is block address a (zero-mode) or  *)
(* a+1 (the documented pymodbus default).                                  *)
(***************************************************************************)
EXTENDS ModbusPDU

(* ---- limits (parametric: scaled down in the MC configurations) -------- *)
CONSTANTS MaxReadBits, MaxReadRegs, MaxWriteBits, MaxWriteRegs, MaxRWRead, MaxRWWrite

(* Named deviations (section 2.1 of DESIGN.md): with Dev = {} this module is the standard.  Each    *)
(* name switches on one way in which an implementation was seen (or could plausibly be made) to      *)
(* deviate; the MC configurations *_dev_* must each produce a counterexample (the properties are    *)
(* not vacuous), and the trace validator uses the same branches to recognise a listed known finding. *)
CONSTANT Dev

(* ---- block layer ------------------------------------------------------ *)
(* [kind |-> "seq", start, size, def, ov, fail]  or                        *)
(* [kind |-> "sparse", keys, def, ov, fail]                                *)
(* ov : explicit values (a function on a finite set of addresses), def the *)
(* value of every other populated cell; fail = TRUE models a datastore     *)
(* whose accesses raise.                                                   *)
Pop(b, a) == IF b.kind = "seq"
             THEN a >= b.start /\ (IF "SeqEndInclusive" \in Dev THEN a <= b.start + b.size ELSE a < b.start + b.size)
             ELSE a \in b.keys
Val(b, a) == IF a \in DOMAIN b.ov THEN b.ov[a] ELSE b.def
RangeOK(b, a, n) == n >= 1 /\ \A i \in 0..(n-1) : Pop(b, a + i)
GetVals(b, a, n) == [i \in 1..n |-> Val(b, a + i - 1)]
SetVals(b, a, vals) ==
  [b EXCEPT !.ov = [x \in (DOMAIN b.ov) \cup {a + i - 1 : i \in 1..Len(vals)} |->
                      IF x >= a /\ x < a + Len(vals) THEN vals[x - a + 1] ELSE b.ov[x]]]

(* ---- context layer ---------------------------------------------------- *)
(* ctx == [zero |-> BOOLEAN, map |-> [c,d,h,i |-> block id], blocks |-> [id |-> block]] *)
TableOf(fc) == CASE fc \in {1, 5, 15} -> "c" [] fc = 2 -> "d" [] fc \in {3, 6, 16, 22, 23} -> "h" [] fc = 4 -> "i"
Eff(ctx, a) == IF ctx.zero THEN a ELSE a + 1
Blk(ctx, fc) == ctx.blocks[ctx.map[TableOf(fc)]]
CtxOK(ctx, fc, a, n)  == RangeOK(Blk(ctx, fc), Eff(ctx, a), n)
CtxGet(ctx, fc, a, n) == GetVals(Blk(ctx, fc), Eff(ctx, a), n)
CtxSet(ctx, fc, a, vals) ==
  [ctx EXCEPT !.blocks[ctx.map[TableOf(fc)]] = SetVals(@, Eff(ctx, a), vals)]
Fails(ctx, fc) == Blk(ctx, fc).fail

(* ---- loosely parsed request (what a server must be able to judge) ------ *)
(* Unlike ModbusPDU!DecodeReq this accepts frames whose value / quantity / *)
(* byte count are not conformant: judging those is exactly C05.            *)
Unjudged == [fc |-> 0, k |-> "unjudged"]
ParseReq(b) ==
  IF Len(b) = 0 THEN Unjudged ELSE
  LET fc == b[1] n == Len(b) IN
  CASE fc \in {1,2,3,4} /\ n = 5 -> [k |-> "read", fc |-> fc, addr |-> U16At(b,2), qty |-> U16At(b,4)]
    [] fc \in {5,6} /\ n = 5 -> [k |-> "w1", fc |-> fc, addr |-> U16At(b,2), word |-> U16At(b,4)]
    [] fc \in {15,16} /\ n >= 6 ->
         [k |-> "wn", fc |-> fc, addr |-> U16At(b,2), qty |-> U16At(b,4), bc |-> b[6], data |-> Drop(b, 6)]
    [] fc = 22 /\ n = 7 -> [k |-> "mask", fc |-> fc, addr |-> U16At(b,2), andm |-> U16At(b,4), orm |-> U16At(b,6)]
    [] fc = 23 /\ n >= 10 ->
         [k |-> "rw", fc |-> fc, raddr |-> U16At(b,2), rqty |-> U16At(b,4), waddr |-> U16At(b,6),
          wqty |-> U16At(b,8), bc |-> b[10], data |-> Drop(b, 10)]
    [] fc \in 1..127 /\ fc \notin SupportedFc -> [k |-> "unknown", fc |-> fc]
    [] OTHER -> Unjudged

NeedBytes(r) == IF r.fc = 15 THEN (r.qty + 7) \div 8 ELSE 2 * (IF r.k = "rw" THEN r.wqty ELSE r.qty)
(* A frame is judged when its byte count contradicts the quantity (=> 03   *)
(* whatever the data) or when the data present are exactly what the byte   *)
(* count announces; a frame with a *consistent* byte count but missing or  *)
(* surplus data bytes is malformed and C12's business.                     *)
Judged(r) ==
  CASE r.k = "unjudged" -> FALSE
    [] r.k \in {"wn", "rw"} -> r.bc # NeedBytes(r) \/ Len(r.data) = r.bc
    [] OTHER -> TRUE

Exc(fc, code) == [t |-> "Exception", fc |-> fc, code |-> code]
AndW(x, y) == x & y
OrW(x, y)  == x | y
NotW(x)    == 65535 - x
MaskResult(cur, andm, orm) ==
  IF "MaskWriteOrNotMasked" \in Dev THEN OrW(AndW(cur, andm), orm)
  ELSE OrW(AndW(cur, andm), AndW(orm, NotW(andm)))

(* Exec(ctx, r) = [rsp |-> response message, ctx |-> context afterwards]   *)
Exec(ctx, r) ==
  LET fc == r.fc
      same(rsp) == [rsp |-> rsp, ctx |-> ctx]
  IN
  CASE r.k = "unknown" -> same(Exc(fc, 1))
    [] r.k = "read" ->
         LET lim == IF fc \in {1,2} THEN MaxReadBits ELSE MaxReadRegs IN
         IF ~(r.qty >= 1 /\ r.qty <= lim) THEN same(Exc(fc, 3))
         ELSE IF Fails(ctx, fc) THEN same(Exc(fc, 4))
         ELSE IF ~CtxOK(ctx, fc, r.addr, r.qty) THEN same(Exc(fc, 2))
         ELSE IF fc \in {1,2} THEN same([t |-> ReadRspTag(fc), bits |-> CtxGet(ctx, fc, r.addr, r.qty)])
         ELSE same([t |-> ReadRspTag(fc), regs |-> CtxGet(ctx, fc, r.addr, r.qty)])
    [] r.k = "w1" /\ fc = 5 ->
         IF r.word \notin {0, 65280} /\ "CoilAnyWordIsOff" \notin Dev THEN same(Exc(fc, 3))
         ELSE IF Fails(ctx, fc) THEN same(Exc(fc, 4))
         ELSE IF ~CtxOK(ctx, fc, r.addr, 1) THEN same(Exc(fc, 2))
         ELSE LET on == IF r.word = 65280 THEN 1 ELSE 0 IN
              [rsp |-> [t |-> "WriteCoilRsp", addr |-> r.addr, on |-> on],
               ctx |-> CtxSet(ctx, fc, r.addr, <<on>>)]
    [] r.k = "w1" /\ fc = 6 ->
         IF Fails(ctx, fc) THEN same(Exc(fc, 4))
         ELSE IF ~CtxOK(ctx, fc, r.addr, 1) THEN same(Exc(fc, 2))
         ELSE [rsp |-> [t |-> "WriteRegRsp", addr |-> r.addr, val |-> r.word],
               ctx |-> CtxSet(ctx, fc, r.addr, <<r.word>>)]
    [] r.k = "wn" ->
         LET lim == IF fc = 15 THEN MaxWriteBits ELSE MaxWriteRegs IN
         IF ~(r.qty >= 1 /\ r.qty <= lim) \/ r.bc # NeedBytes(r) THEN same(Exc(fc, 3))
         ELSE IF Fails(ctx, fc) THEN same(Exc(fc, 4))
         ELSE IF ~CtxOK(ctx, fc, r.addr, r.qty) THEN same(Exc(fc, 2))
         ELSE LET vals == IF fc = 15 THEN Take(UnpackBits(r.data), r.qty) ELSE WordsAt(r.data, 1, r.qty) IN
              [rsp |-> [t |-> IF fc = 15 THEN "WriteCoilsRsp" ELSE "WriteRegsRsp", addr |-> r.addr, qty |-> r.qty],
               ctx |-> CtxSet(ctx, fc, r.addr, vals)]
    [] r.k = "mask" ->
         IF Fails(ctx, fc) THEN same(Exc(fc, 4))
         ELSE IF ~CtxOK(ctx, fc, r.addr, 1) THEN same(Exc(fc, 2))
         ELSE LET cur == CtxGet(ctx, fc, r.addr, 1)[1] IN
              [rsp |-> [t |-> "MaskWriteRsp", addr |-> r.addr, andm |-> r.andm, orm |-> r.orm],
               ctx |-> CtxSet(ctx, fc, r.addr, <<MaskResult(cur, r.andm, r.orm)>>)]
    [] r.k = "rw" ->
         IF ~(r.rqty >= 1 /\ r.rqty <= MaxRWRead) \/ ~(r.wqty >= 1 /\ r.wqty <= MaxRWWrite)
              \/ r.bc # NeedBytes(r) THEN same(Exc(fc, 3))
         ELSE IF Fails(ctx, fc) THEN same(Exc(fc, 4))
         ELSE IF "RWWritesBeforeReadCheck" \in Dev /\ CtxOK(ctx, fc, r.waddr, r.wqty) /\ ~CtxOK(ctx, fc, r.raddr, r.rqty)
              THEN [rsp |-> Exc(fc, 2), ctx |-> CtxSet(ctx, fc, r.waddr, WordsAt(r.data, 1, r.wqty))]
         ELSE IF ~CtxOK(ctx, fc, r.raddr, r.rqty) \/ ~CtxOK(ctx, fc, r.waddr, r.wqty) THEN same(Exc(fc, 2))
         ELSE LET c2 == CtxSet(ctx, fc, r.waddr, WordsAt(r.data, 1, r.wqty)) IN
              [rsp |-> [t |-> "ReadWriteRsp",
                        regs |-> CtxGet(IF "RWReadsBeforeWrite" \in Dev THEN ctx ELSE c2, fc, r.raddr, r.rqty)],
               ctx |-> c2]

(* ---- observation helpers ---------------------------------------------- *)
(* the cells (block id, address) whose value differs between two contexts  *)
BlockCells(b) == IF b.kind = "seq" THEN b.start..(b.start + b.size - 1) ELSE b.keys
Changed(c1, c2) ==
  {<<id, a>> \in UNION {{id} \X ((DOMAIN c1.blocks[id].ov) \cup (DOMAIN c2.blocks[id].ov)) : id \in DOMAIN c1.blocks} :
      Val(c1.blocks[id], a) # Val(c2.blocks[id], a)}
(* the cells a request is allowed to touch *)
Addressed(ctx, r) ==
  CASE r.k = "w1" -> {<<ctx.map[TableOf(r.fc)], Eff(ctx, r.addr)>>}
    [] r.k = "mask" -> {<<ctx.map[TableOf(r.fc)], Eff(ctx, r.addr)>>}
    [] r.k = "wn" -> {<<ctx.map[TableOf(r.fc)], Eff(ctx, r.addr) + i>> : i \in 0..(r.qty - 1)}
    [] r.k = "rw" -> {<<ctx.map[TableOf(r.fc)], Eff(ctx, r.waddr) + i>> : i \in 0..(r.wqty - 1)}
    [] OTHER -> {}
IsExc(m) == m.t = "Exception"
=============================================================================
