------------------------------- MODULE Blocks -------------------------------
(***************************************************************************)
(* C18: the addressing contract of data blocks, slave contexts and server  *)
(* contexts, on top of the block/context operators of DataModel.           *)
(*                                                                         *)
(* Server context: [single |-> BOOLEAN, reg |-> function unit id ->        *)
(* context name].  In single mode every unit id reaches the one context;   *)
(* otherwise exactly the registered ids, registration outside 0..247 is    *)
(* refused, everything else is "NoSuchSlave".                              *)
(***************************************************************************)
EXTENDS DataModel

ResetBlock(b) ==
  IF b.def = b.zero
  THEN [b EXCEPT !.ov = [a \in DOMAIN b.ov |-> b.zero]]      \* (cells without an override already hold the default: a 65536-cell
                                                              \*  block costs nothing here)
  ELSE [b EXCEPT !.ov = [a \in (IF b.kind = "seq" THEN b.start..(b.start + b.size - 1) ELSE b.keys) |-> b.zero]]
   \* reset: every populated cell returns to the block's type default (0 / False); extent unchanged

NoSuch == "NoSuchSlave"
SrvGet(s, u) == IF s.single THEN (IF DOMAIN s.reg = {} THEN NoSuch ELSE s.reg[CHOOSE k \in DOMAIN s.reg : TRUE])
                ELSE IF u \in DOMAIN s.reg THEN s.reg[u] ELSE NoSuch
SrvHas(s, u) == IF s.single THEN DOMAIN s.reg # {} ELSE u \in DOMAIN s.reg
(* registration: refused outside 0..247 (in single mode the id given is irrelevant: the one context is replaced) *)
SrvSetOK(s, u) == s.single \/ (u >= 0 /\ u <= 247)
SrvSet(s, u, c) ==
  IF ~SrvSetOK(s, u) THEN s
  ELSE IF s.single THEN [s EXCEPT !.reg = [k \in {0} |-> c]]
  ELSE [s EXCEPT !.reg = [k \in (DOMAIN s.reg) \cup {u} |-> IF k = u THEN c ELSE s.reg[k]]]
SrvDel(s, u) == IF ~s.single /\ u \in DOMAIN s.reg THEN [s EXCEPT !.reg = [k \in (DOMAIN s.reg) \ {u} |-> s.reg[k]]] ELSE s
=============================================================================
