SPECIFICATION Spec
CONSTANT MDev = {}
PROPERTY EncPure
PROPERTY EncDeterministic
PROPERTY DecFresh
INVARIANT RoundTrip
INVARIANT FixedPoint
CHECK_DEADLOCK FALSE
