------------------------------ MODULE Payload ------------------------------
(***************************************************************************)
(* Payload builder / decoder (C19).  Written from the convention stated in *)
(* the property, not from pymodbus/payload.py:                             *)
(*                                                                         *)
(*   "big byte order with big word order is network order, little word     *)
(*    order reverses the 16-bit words of a multi-register value, and       *)
(*    little byte order swaps the two bytes inside each word."             *)
(*                                                                         *)
(* A typed value is represented by its canonical image: the big-endian     *)
(* (network order) byte string of the value, 1/2/4/8 bytes for the numeric *)
(* types, the n bytes of a string, and for a bit group the list of its     *)
(* bits (0/1).  The conversion value <-> image (two's complement, IEEE     *)
(* 754) is outside TLA+: the harness computes it with struct.pack('>fmt'). *)
(*                                                                         *)
(* Two independent statements of the register image are given: the         *)
(* operational one (Layout: split / reverse / swap) and a literal table    *)
(* (ConventionalImage).  PayloadMC checks that they coincide.              *)
(*                                                                         *)
(* Named deviations (DESIGN.md 2.1), used only for non-vacuity of the      *)
(* properties of PayloadMC (Dev = {} is the convention):                   *)
(*   "WordOrderIgnored"    the decoder does not undo the word reversal     *)
(*   "ByteSwapWholeValue"  little byte order reverses the bytes of the     *)
(*                         whole value (what struct '<I' does), on both    *)
(*                         sides: round trips survive, the image is wrong  *)
(*   "OddTailDropped"      the register image drops the last byte of an    *)
(*                         odd-length payload instead of padding it        *)
(*   "RegistersLittle"     registers are formed low byte first             *)
(***************************************************************************)
EXTENDS Bytes

CONSTANT Dev

Orders == {"big", "little"}

ByteTypes == {"u8", "i8"}
WordTypes == {"u16", "i16", "f16", "u32", "i32", "f32", "u64", "i64", "f64"}
FixedTypes == ByteTypes \cup WordTypes
Types == FixedTypes \cup {"str", "bits"}

TypeSize(t) == CASE t \in {"u8", "i8"} -> 1
                 [] t \in {"u16", "i16", "f16"} -> 2
                 [] t \in {"u32", "i32", "f32"} -> 4
                 [] t \in {"u64", "i64", "f64"} -> 8

(* number of payload bytes a value of type t with image img occupies *)
ByteLen(t, img) == IF t = "bits" THEN (Len(img) + 7) \div 8 ELSE Len(img)

IsBits(s) == \A i \in 1..Len(s) : s[i] \in {0, 1}
WellTyped(t, img) ==
  /\ t \in Types
  /\ IF t = "bits" THEN IsBits(img) ELSE IsBytes(img)
  /\ t \in FixedTypes => Len(img) = TypeSize(t)

Rev(s) == [i \in 1..Len(s) |-> s[Len(s) + 1 - i]]
SplitWords(b) == [k \in 1..(Len(b) \div 2) |-> <<b[2*k - 1], b[2*k]>>]
SwapEach(ws) == [k \in 1..Len(ws) |-> <<ws[k][2], ws[k][1]>>]

(* ---- builder side ------------------------------------------------------ *)
WordLayout(img, bo, wo) ==
  LET w0 == SplitWords(img)
      w1 == IF wo = "little" THEN Rev(w0) ELSE w0
  IN  IF "ByteSwapWholeValue" \in Dev
      THEN (IF bo = "little" THEN Rev(img) ELSE Flatten(w1))
      ELSE Flatten(IF bo = "little" THEN SwapEach(w1) ELSE w1)

(* the bytes a value contributes to the payload *)
Layout(t, img, bo, wo) ==
  CASE t \in WordTypes -> WordLayout(img, bo, wo)
    [] t = "bits" -> PackBits(img)               \* first bit = LSB of the first byte, zero padded
    [] OTHER -> img                              \* single bytes and strings are order-free

(* ---- decoder side ------------------------------------------------------ *)
WordUnlayout(b, bo, wo) ==
  IF "ByteSwapWholeValue" \in Dev /\ bo = "little" THEN Rev(b)
  ELSE LET w0 == SplitWords(b)
           w1 == IF bo = "little" /\ "ByteSwapWholeValue" \notin Dev THEN SwapEach(w0) ELSE w0
           w2 == IF wo = "little" /\ "WordOrderIgnored" \notin Dev THEN Rev(w1) ELSE w1
       IN  Flatten(w2)

(* the image recovered from the bytes b of one field *)
Unlayout(t, b, bo, wo) ==
  CASE t \in WordTypes -> WordUnlayout(b, bo, wo)
    [] t = "bits" -> UnpackBits(b)
    [] OTHER -> b

(* what a decoder can give back for an added value: a bit group comes back zero-padded to whole bytes *)
Canon(t, img) == IF t = "bits" THEN PadBits(img) ELSE img

(* a decode call consumes: the type's size, one byte for decode_bits, `size' bytes for a string *)
DecSize(t, size) == IF t \in FixedTypes THEN TypeSize(t) ELSE IF t = "bits" THEN 1 ELSE size

(* decode calls that recover an added value, in order: one per value, one per byte of a bit group *)
Items(t, img) ==
  IF t = "bits"
  THEN [j \in 1..ByteLen(t, img) |-> <<"bits", Slice(PadBits(img), 8*(j-1) + 1, 8)>>]
  ELSE << <<t, img>> >>

(* ---- literal statement of the conventional image ----------------------- *)
(* position j of the payload holds canonical byte Perm[j] *)
Perm(n, bo, wo) ==
  CASE n = 2 -> (IF bo = "big" THEN <<1, 2>> ELSE <<2, 1>>)
    [] n = 4 -> (CASE bo = "big" /\ wo = "big" -> <<1, 2, 3, 4>>
                   [] bo = "big" /\ wo = "little" -> <<3, 4, 1, 2>>
                   [] bo = "little" /\ wo = "big" -> <<2, 1, 4, 3>>
                   [] bo = "little" /\ wo = "little" -> <<4, 3, 2, 1>>)
    [] n = 8 -> (CASE bo = "big" /\ wo = "big" -> <<1, 2, 3, 4, 5, 6, 7, 8>>
                   [] bo = "big" /\ wo = "little" -> <<7, 8, 5, 6, 3, 4, 1, 2>>
                   [] bo = "little" /\ wo = "big" -> <<2, 1, 4, 3, 6, 5, 8, 7>>
                   [] bo = "little" /\ wo = "little" -> <<8, 7, 6, 5, 4, 3, 2, 1>>)
ConventionalImage(img, bo, wo) == [j \in 1..Len(img) |-> img[Perm(Len(img), bo, wo)[j]]]

(* ---- registers --------------------------------------------------------- *)
(* Register k is the big-endian 16-bit number made of payload bytes 2k-1, 2k: with big/big orders *)
(* the registers of a value are its network-order words.  An odd payload is completed by one zero *)
(* byte (nothing else keeps every payload byte in a whole register).                               *)
EvenPad(b) ==
  IF Len(b) % 2 = 0 THEN b
  ELSE IF "OddTailDropped" \in Dev THEN Take(b, Len(b) - 1) ELSE Append(b, 0)
Registers(b) ==
  LET p == EvenPad(b) IN
  [k \in 1..(Len(p) \div 2) |->
     IF "RegistersLittle" \in Dev THEN p[2*k] * 256 + p[2*k - 1] ELSE U16At(p, 2*k - 1)]
(* the byte string a consumer of registers works on (Modbus transmits a register high byte first) *)
RegBytes(regs) == Words(regs)
=============================================================================
