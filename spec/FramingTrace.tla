---------------------------- MODULE FramingTrace ----------------------------
(***************************************************************************)
(* Trace validation for C03 / C06 / C07 / C11.                             *)
(*                                                                         *)
(* trace = [id, mode, kind, g, sent, calls]                                *)
(*   sent  : the frames the environment put on the wire (ghost):           *)
(*           [start, len, uid, tid, pid, pdu, exp]  exp = 1 iff the frame  *)
(*           is valid and addressed to a unit the receiver accepts         *)
(*   g     : stream offset of the last garbage byte (0: none)              *)
(*   calls : [op |-> "feed", chunk, delivered, raised, buflen]   one call   *)
(*           of processIncomingPacket; delivered = <<[uid,tid,pid,pdu]>>   *)
(*           [op |-> "build", tid, pid, uid, pdu, bytes]  buildPacket       *)
(*           [op |-> "crc" | "lrc", data, val]            checksum helpers  *)
(* mode selects the clauses: "c03" "c06" (NoRaise, PrefixOK, Complete, Ids) *)
(*  "c07" (Justified)  "c11" (Resync, Backlog)                              *)
(***************************************************************************)
EXTENDS Framing, TLC, Json, IOUtils

Traces == JsonDeserialize(IOEnv.TRACE_FILE).traces
VARIABLES tr, i, fed, p, lastEnd, out
vars == <<tr, i, fed, p, lastEnd, out>>
T == Traces[tr]

Init == tr \in 1..Len(Traces) /\ i = 1 /\ fed = <<>> /\ p = 0 /\ lastEnd = 0 /\ out = "run"

Exp == T.expframes      \* = SelectSeq(T.sent, exp = 1), precomputed by the harness (TLC re-evaluates operators on every use)
Same(kind, d, e) == /\ d.pdu = e.pdu
                    /\ (HasUid(kind) => d.uid = e.uid)
                    /\ (HasTid(kind) => d.tid = e.tid /\ d.pid = e.pid)
B == 2 * MaxFrame(T.kind)

(* match the deliveries of one call against Exp starting after index q;    *)
(* returns [p |-> new pointer, fail |-> set of clause names]                *)
RECURSIVE Match(_, _, _, _)
Match(ds, k, q, nfed) ==
  IF k > Len(ds) THEN [p |-> q, fail |-> {}]
  ELSE LET cand == {x \in (q+1)..Len(Exp) : Same(T.kind, ds[k], Exp[x])} IN
       IF cand = {} THEN
          LET rest == Match(ds, k + 1, q, nfed) IN
          [p |-> rest.p, fail |-> rest.fail \cup (IF T.mode \in {"c03", "c06"} THEN {"PrefixOK"}
                                                  ELSE IF T.mode = "c11" THEN {"Unexpected"} ELSE {})]
       ELSE LET x == CHOOSE y \in cand : \A z \in cand : y <= z
                skipped == (q+1)..(x-1)
                rest == Match(ds, k + 1, x, nfed)
                f == IF skipped = {} THEN {}
                     ELSE IF T.mode \in {"c03", "c06"} THEN {"PrefixOK"}
                     ELSE IF T.mode = "c11" /\ \E s \in skipped : Exp[s].start > T.g + B THEN {"Resync"}
                     ELSE {}
                early == IF T.mode \in {"c03", "c06"} /\ Exp[x].start + Exp[x].len - 1 > nfed THEN {"DeliveredBeforeReceived"} ELSE {}
            IN [p |-> rest.p, fail |-> rest.fail \cup f \cup early]

EvalFeed(c) ==
  LET nf == fed \o c.chunk
      m == Match(c.delivered, 1, p, Len(nf))
      last == i = Len(T.calls)
      noraise == IF c.raised # "" /\ T.mode \in {"c03", "c06"} THEN {"NoRaise"} ELSE {}
      complete == IF last /\ T.mode \in {"c03", "c06"} /\ m.p # Len(Exp) THEN {"Complete"} ELSE {}
      just == IF T.mode = "c07" /\ \E k \in 1..Len(c.delivered) :
                      ~(Justified(T.kind, c.delivered[k], nf) /\ FixedLenOK(T.dir, c.delivered[k].pdu))
              THEN {"Justified"} ELSE {}
      (* c11: no expected frame that started after the resync allowance and is wholly fed may still be undelivered *)
      deaf == IF T.mode = "c11" /\ \E x \in (m.p + 1)..Len(Exp) :
                    Exp[x].start > T.g + B /\ Exp[x].start + Exp[x].len - 1 <= Len(nf)
              THEN {"Resync"} ELSE {}
      newEnd == IF m.p > 0 THEN Exp[m.p].start + Exp[m.p].len - 1 ELSE 0
      pend == IF T.g > newEnd THEN T.g - newEnd ELSE 0
      backlog == IF T.mode = "c11" /\ c.buflen > pend + B + MaxFrame(T.kind) THEN {"Backlog"} ELSE {}
  IN [fail |-> m.fail \cup noraise \cup complete \cup just \cup deaf \cup backlog, fed |-> nf, p |-> m.p, lastEnd |-> newEnd]

Swap16(v) == Lo(v) * 256 + Hi(v)
Eval(c) ==
  CASE c.op = "feed" -> EvalFeed(c)
    [] c.op = "build" ->
         [fail |-> IF c.raised # "" THEN {"NoRaise"}
                   ELSE IF c.bytes # Build(T.kind, c.tid, c.pid, c.uid, c.pdu) THEN {"BuildADU"} ELSE {},
          fed |-> fed, p |-> p, lastEnd |-> lastEnd]
    [] c.op = "crc" -> [fail |-> IF c.val # Swap16(CRC16(c.data)) THEN {"CRC"} ELSE {}, fed |-> fed, p |-> p, lastEnd |-> lastEnd]
    [] c.op = "lrc" -> [fail |-> IF c.val # LRC(c.data) THEN {"LRC"} ELSE {}, fed |-> fed, p |-> p, lastEnd |-> lastEnd]

Verdict(status, step, clauses, detail) ==
  PrintT("VERDICT " \o ToJson([id |-> T.id, status |-> status, step |-> step, clauses |-> clauses, detail |-> detail]))

Step ==
  /\ out = "run" /\ i <= Len(T.calls)
  /\ LET c == T.calls[i]
         e == Eval(c)
     IN /\ IF e.fail # {}
           THEN Verdict("FAIL", i, e.fail,
                        [p |-> e.p, nexp |-> Len(Exp), nfed |-> Len(e.fed),
                         explained_by |-> IF c.op = "build" /\ c.raised = ""
                                          THEN {d \in FramingDevNames : c.bytes = BuildD(T.kind, c.tid, c.pid, c.uid, c.pdu, {d})}
                                          ELSE {},
                         expected |-> IF c.op = "build" THEN Build(T.kind, c.tid, c.pid, c.uid, c.pdu) ELSE <<>>]) /\ out' = "done"
           ELSE IF i = Len(T.calls) THEN Verdict("OK", i, {}, [p |-> e.p]) /\ out' = "done"
           ELSE out' = "run"
        /\ fed' = e.fed /\ p' = e.p /\ lastEnd' = e.lastEnd
  /\ i' = i + 1 /\ UNCHANGED tr
Empty == out = "run" /\ Len(T.calls) = 0 /\ Verdict("OK", 0, {}, [p |-> 0]) /\ out' = "done" /\ UNCHANGED <<tr, i, fed, p, lastEnd>>
Spec == Init /\ [][Step \/ Empty]_vars
=============================================================================
