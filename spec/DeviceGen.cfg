SPECIFICATION GSpec
CONSTANTS
  LogCap = 64
  MaxCnt = 40
  DDev = {}
  GenDepth = 14
INVARIANT Export
CHECK_DEADLOCK FALSE
