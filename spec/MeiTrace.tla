------------------------------ MODULE MeiTrace ------------------------------
(***************************************************************************)
(* Trace validation for C20: chains of Read Device Identification          *)
(* request/response pages recorded from the real server path               *)
(* (ServerDecoder.decode -> execute -> encode) and the real client decoder *)
(* are judged page by page against Mei!Expected.  One initial state per    *)
(* recorded chain, one step per page, a verdict line at the end of the     *)
(* chain or at the first page on which a clause fails.                     *)
(*                                                                         *)
(* trace = [id, identity |-> << <<object id, bytes>>, ... >>, code, start,  *)
(*          judged_complete |-> 0/1, cut |-> 0/1 (harness hit its page cap), *)
(*          pages |-> << [req |-> bytes, rsp |-> bytes, raised |-> "" | name, *)
(*                       cli |-> what the client decoder made of rsp], ... >>] *)
(* cli   = [kind |-> "rsp" | "exc" | "none", code, conf, more, next, n,     *)
(*          fc, exc, objs |-> << <<id, bytes>>, ... >>]                      *)
(*                                                                         *)
(* Clauses (names appear in the verdict):                                  *)
(*   SizeBound       every response PDU is at most 253 bytes                *)
(*   ChainTerminates the chain ended by itself within (objects + 1) pages   *)
(*   WellFormed      every response is a conformant FC43/14 response PDU or *)
(*                   a FC43 exception response                              *)
(*   NoRaise         the server path produced a response at all             *)
(*   ClientDecode    the client decoder read the same fields and objects    *)
(*                   out of the bytes as ModbusPDU!DecodeRsp                *)
(*   ChainFollows    (sanity of the harness) request k+1 asks for the next  *)
(*                   object id announced by page k, the chain stops exactly *)
(*                   when more-follows is not 0xFF                          *)
(*   JudgedFlag      (sanity of the harness) its judged_complete flag is    *)
(*                   Mei!Judged                                             *)
(* and, only when Mei!Judged (start id 0 or populated in the category, all  *)
(* values transportable):                                                  *)
(*   NoException, EchoCode                                                 *)
(*   Values          every delivered object is a demanded one with its      *)
(*                   exact value                                            *)
(*   ExactlyOnce     no object id is delivered twice                        *)
(*   Complete        what was delivered is, in order, what is demanded      *)
(*                   (nothing skipped; at the end nothing missing)          *)
(*   MoreFlag        more-follows is 0xFF iff something remains (else 0),   *)
(*                   and then next-object-id is the first object not yet    *)
(*                   delivered                                              *)
(***************************************************************************)
EXTENDS Mei, TLC, Json, IOUtils

TraceData == JsonDeserialize(IOEnv.TRACE_FILE)
Traces == TraceData.traces

(* the reference design with the deviation that a listed finding names; used only to say whether a
   failing chain is exactly what that deviation predicts (DESIGN.md 2.3), never to excuse a clause *)
Stall == INSTANCE Mei WITH Dev <- {"OversizeStalls"}

PairsToFn(ps) == [a \in {ps[k][1] : k \in 1..Len(ps)} |-> ps[CHOOSE k \in 1..Len(ps) : ps[k][1] = a][2]]
PairsToObjs(ps) == [k \in 1..Len(ps) |-> [id |-> ps[k][1], val |-> ps[k][2]]]

VARIABLES tr, i, got, want, out
vars == <<tr, i, got, want, out>>

T == Traces[tr]
Idn == PairsToFn(T.identity)
J == Judged(Idn, T.code, T.start)
Exp == Expected(Idn, T.code, T.start)

Init == /\ tr \in 1..Len(Traces)
        /\ i = 1
        /\ got = <<>>
        /\ want = Traces[tr].start           \* object id the next request must ask for
        /\ out = "run"

Verdict(status, step, clauses, detail) ==
  PrintT("VERDICT " \o ToJson([id |-> T.id, status |-> status, step |-> step,
                               clauses |-> clauses, detail |-> detail]))

ClientOK(c, m) ==
  IF m.t = "Exception" THEN c.kind = "exc" /\ c.fc = m.fc /\ c.exc = m.code
  ELSE /\ c.kind = "rsp"
       /\ c.code = m.code /\ c.conf = m.conf /\ c.more = m.more /\ c.next = m.next /\ c.n = Len(m.objs)
       /\ LET co == PairsToObjs(c.objs) IN
          /\ Len(co) = Len(m.objs)
          /\ Seq2Set(co) = Seq2Set(m.objs)
          /\ Distinct(IdsOf(m.objs)) => co = m.objs      \* the client groups repeated ids; order is only comparable without

(* the failing clauses of page k, given what arrived before it *)
Failing(k, before, wanted) ==
  LET pg   == T.pages[k]
      last == k = Len(T.pages)
      rq   == DecodeReq(pg.req)
      m    == IF pg.raised = "" THEN DecodeRsp(pg.rsp) ELSE Malformed
      ok   == m # Malformed
      isr  == ok /\ m.t = "DevIdRsp"
      now  == IF isr THEN before \o m.objs ELSE before
      pre  == IsPrefix(now, Exp)
      goeson == isr /\ m.more = More
  IN  (IF k = 1 /\ T.judged_complete # (IF J THEN 1 ELSE 0) THEN {"JudgedFlag"} ELSE {})
      \cup (IF rq.t # "DevIdReq" \/ rq.code # T.code \/ rq.oid # wanted THEN {"ChainFollows"} ELSE {})
      \cup (IF pg.raised # "" THEN {"NoRaise"} ELSE {})
      \cup (IF pg.raised = "" /\ (~ok \/ (m.t = "Exception" /\ m.fc # 43) \/ m.t \notin {"Exception", "DevIdRsp"})
            THEN {"WellFormed"} ELSE {})
      \cup (IF Len(pg.rsp) > MaxPdu THEN {"SizeBound"} ELSE {})
      \cup (IF k > NPop(Idn) + 1 \/ (last /\ T.cut # 0) THEN {"ChainTerminates"} ELSE {})
      \cup (IF ok /\ ~ClientOK(pg.cli, m) THEN {"ClientDecode"} ELSE {})
      \cup (IF ok /\ ((~last /\ ~goeson) \/ (last /\ T.cut = 0 /\ goeson)) THEN {"ChainFollows"} ELSE {})
      \cup (IF J /\ ok /\ m.t = "Exception" THEN {"NoException"} ELSE {})
      \cup (IF J /\ isr /\ m.code # T.code THEN {"EchoCode"} ELSE {})
      \cup (IF J /\ isr /\ ~pre
            THEN LET foreign == \E x \in 1..Len(m.objs) : m.objs[x] \notin Seq2Set(Exp)
                     twice   == ~Distinct(IdsOf(now))
                 IN (IF foreign THEN {"Values"} ELSE {}) \cup (IF twice THEN {"ExactlyOnce"} ELSE {})
                    \cup (IF ~foreign /\ ~twice THEN {"Complete"} ELSE {})
            ELSE {})
      \cup (IF J /\ isr /\ pre /\
               ~( /\ m.more \in {More, NoMore}
                  /\ (m.more = More) <=> (now # Exp)
                  /\ m.more = More => m.next = Exp[Len(now) + 1].id )
            THEN {"MoreFlag"} ELSE {})
      \cup (IF J /\ last /\ T.cut = 0 /\ pre /\ now # Exp THEN {"Complete"} ELSE {})

(* is the last recorded page exactly the page the reference design with deviation OversizeStalls answers:
   no object, more-follows, next = the requested (oversize) object itself *)
StallLen ==
  LET pg == T.pages[Len(T.pages)]
      rq == DecodeReq(pg.req)
      m  == IF pg.raised = "" THEN DecodeRsp(pg.rsp) ELSE Malformed
  IN IF rq.t = "DevIdReq" /\ m # Malformed /\ m.t = "DevIdRsp"
     THEN LET p == Stall!Respond(Idn, rq.code, rq.oid) IN
          IF p.t = "DevIdRsp" /\ p.objs = <<>> /\ m.objs = p.objs /\ m.more = p.more /\ m.next = p.next
               /\ p.more = More /\ p.next = rq.oid
          THEN Len(Val(Idn, rq.oid)) ELSE 0
     ELSE 0

Front(s, n) == IF Len(s) <= n THEN s ELSE SubSeq(s, 1, n)

Step ==
  /\ out = "run"
  /\ i <= Len(T.pages)
  /\ LET pg == T.pages[i]
         f  == Failing(i, got, want)
         m  == IF pg.raised = "" THEN DecodeRsp(pg.rsp) ELSE Malformed
     IN IF f # {}
        THEN /\ Verdict("FAIL", i, f,
                        [code |-> T.code, start |-> T.start, judged |-> IF J THEN 1 ELSE 0,
                         req |-> pg.req, rsp_head |-> Front(pg.rsp, 12), rsp_len |-> Len(pg.rsp), raised |-> pg.raised,
                         npop |-> NPop(Idn), maxlen |-> MaxLen(Idn), npages |-> Len(T.pages), cut |-> T.cut,
                         delivered |-> IdsOf(got), demanded |-> IF J THEN IdsOf(Exp) ELSE <<>>,
                         stall_len |-> StallLen])
             /\ out' = "done" /\ UNCHANGED <<got, want>>
        ELSE /\ got' = IF m.t = "DevIdRsp" THEN got \o m.objs ELSE got
             /\ want' = IF m.t = "DevIdRsp" THEN m.next ELSE want
             /\ IF i = Len(T.pages)
                THEN /\ Verdict("OK", i, {}, [n |-> i, judged |-> IF J THEN 1 ELSE 0, objs |-> Len(got')])
                     /\ out' = "done"
                ELSE out' = "run"
  /\ i' = i + 1
  /\ UNCHANGED tr

Empty == /\ out = "run" /\ Len(T.pages) = 0
         /\ Verdict("FAIL", 0, {"ChainFollows"}, [n |-> 0]) /\ out' = "done" /\ UNCHANGED <<tr, i, got, want>>

Next == Step \/ Empty
Spec == Init /\ [][Next]_vars
=============================================================================
