SPECIFICATION GSpec
CONSTANTS
  SDev = {}
  Dev = {}
  GenDepth = 6
  MaxReadBits = 2000
  MaxReadRegs = 125
  MaxWriteBits = 1968
  MaxWriteRegs = 123
  MaxRWRead = 125
  MaxRWWrite = 121
INVARIANT Export
CHECK_DEADLOCK FALSE
