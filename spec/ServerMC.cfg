SPECIFICATION Spec
CONSTANTS
  SDev = {}
  Dev = {}
  MaxReadBits = 2000
  MaxReadRegs = 125
  MaxWriteBits = 1968
  MaxWriteRegs = 123
  MaxRWRead = 125
  MaxRWWrite = 121
PROPERTY C09Step
PROPERTY C09Served
PROPERTY C10Step
PROPERTY Isolation
CHECK_DEADLOCK FALSE
VIEW View
