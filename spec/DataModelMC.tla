---------------------------- MODULE DataModelMC ----------------------------
(***************************************************************************)
(* Exhaustive model of one unit's register file under every sequence of    *)
(* requests from a small alphabet (limits scaled to 3/2/3/2/2/2, tables    *)
(* of three cells, several layouts).  Properties C04 / C05 are stated over *)
(* ghost variables that are maintained independently of DataModel!Exec:    *)
(* `lw' (last value written per cell, interpreted cell by cell from the    *)
(* request) and `ExpectedExc' (the exception code demanded by the          *)
(* standard's flow charts, written declaratively).                         *)
(***************************************************************************)
EXTENDS DataModel, TLC, Json

CONSTANTS Layouts,         \* set of initial contexts
          ExportStates     \* TRUE: print every reachable state / the alphabet as JSON (behaviour generation)

VARIABLES ctx, req, rsp, lw

vars == <<ctx, req, rsp, lw>>

Addrs == 0..6
BitBytes == {0, 5}
RegWords == {0, 65535}

SeqsOf(S, n) == [1..n -> S]
ReadReqs == {[k |-> "read", fc |-> fc, addr |-> a, qty |-> q] : fc \in {1,2,3,4}, a \in Addrs, q \in 0..4}
W1Reqs == {[k |-> "w1", fc |-> 5, addr |-> a, word |-> w] : a \in Addrs, w \in {0, 65280, 1, 65535}}
          \cup {[k |-> "w1", fc |-> 6, addr |-> a, word |-> w] : a \in Addrs, w \in RegWords}
WnCoilReqs == UNION {{[k |-> "wn", fc |-> 15, addr |-> a, qty |-> q, bc |-> bc, data |-> d] :
                        a \in Addrs, q \in {0,1,2,3,4,9}, d \in SeqsOf(BitBytes, bc)} : bc \in 0..2}
WnRegReqs == UNION {{[k |-> "wn", fc |-> 16, addr |-> a, qty |-> q, bc |-> 2*n, data |-> Words(d)] :
                        a \in Addrs, q \in 0..3, d \in SeqsOf(RegWords, n)} : n \in 0..3}
             \cup {[k |-> "wn", fc |-> 16, addr |-> a, qty |-> 2, bc |-> 3, data |-> <<0,1,0>>] : a \in Addrs}
MaskReqs == {[k |-> "mask", fc |-> 22, addr |-> a, andm |-> x, orm |-> y] :
               a \in Addrs, x \in {0, 65535, 65520}, y \in {0, 15}}
RwReqs == UNION {{[k |-> "rw", fc |-> 23, raddr |-> ra, rqty |-> rq, waddr |-> wa, wqty |-> wq,
                   bc |-> 2*n, data |-> Words(d)] :
                     ra \in {0,1,3,4}, rq \in 0..3, wa \in {0,1,2,4}, wq \in 0..3, d \in SeqsOf({1, 65535}, n)} : n \in 0..2}
UnknownReqs == {[k |-> "unknown", fc |-> fc] : fc \in {9, 10, 13, 14, 18, 19, 25, 42, 44, 100, 127}}
Reqs == ReadReqs \cup W1Reqs \cup WnCoilReqs \cup WnRegReqs \cup MaskReqs \cup RwReqs \cup UnknownReqs

Cells(c) == UNION {{<<id, a>> : a \in BlockCells(c.blocks[id])} : id \in DOMAIN c.blocks}

(* ---- ghost: the declarative reading of the standard -------------------- *)
Table(c, fc) == c.map[TableOf(fc)]
Populated(c, fc, a, n) == \A i \in 0..(n-1) : <<Table(c, fc), Eff(c, a) + i>> \in Cells(c)
BadValue(r) ==
  CASE r.k = "read" -> r.qty < 1 \/ r.qty > (IF r.fc \in {1,2} THEN MaxReadBits ELSE MaxReadRegs)
    [] r.k = "w1" -> r.fc = 5 /\ r.word \notin {0, 65280}
    [] r.k = "wn" -> r.qty < 1 \/ r.qty > (IF r.fc = 15 THEN MaxWriteBits ELSE MaxWriteRegs)
                       \/ r.bc # (IF r.fc = 15 THEN (r.qty + 7) \div 8 ELSE 2 * r.qty)
    [] r.k = "rw" -> r.rqty < 1 \/ r.rqty > MaxRWRead \/ r.wqty < 1 \/ r.wqty > MaxRWWrite \/ r.bc # 2 * r.wqty
    [] OTHER -> FALSE
BadAddr(c, r) ==
  CASE r.k = "read" -> ~Populated(c, r.fc, r.addr, r.qty)
    [] r.k \in {"w1", "mask"} -> ~Populated(c, r.fc, r.addr, 1)
    [] r.k = "wn" -> ~Populated(c, r.fc, r.addr, r.qty)
    [] r.k = "rw" -> ~Populated(c, 23, r.raddr, r.rqty) \/ ~Populated(c, 23, r.waddr, r.wqty)
    [] OTHER -> FALSE
ExpectedExc(c, r) ==
  IF r.k = "unknown" THEN 1
  ELSE IF BadValue(r) THEN 3
  ELSE IF Fails(c, r.fc) THEN 4
  ELSE IF BadAddr(c, r) THEN 2
  ELSE 0

NoWrite == 99999
(* value written to cell <<id,a>> by an accepted request r, or NoWrite *)
Written(c, r, cell) ==
  LET id == cell[1] a == cell[2] IN
  IF r.k \in {"read", "unknown"} \/ id # Table(c, r.fc) THEN NoWrite
  ELSE CASE r.k = "w1" -> IF a = Eff(c, r.addr) THEN (IF r.fc = 5 THEN (IF r.word = 65280 THEN 1 ELSE 0) ELSE r.word) ELSE NoWrite
         [] r.k = "mask" -> IF a = Eff(c, r.addr)
                            THEN ((lw[cell] & r.andm) | (r.orm & (65535 - r.andm))) ELSE NoWrite
         [] r.k = "wn" -> IF a >= Eff(c, r.addr) /\ a < Eff(c, r.addr) + r.qty
                          THEN (IF r.fc = 15 THEN UnpackBits(r.data)[a - Eff(c, r.addr) + 1]
                                ELSE U16At(r.data, 2 * (a - Eff(c, r.addr)) + 1))
                          ELSE NoWrite
         [] r.k = "rw" -> IF a >= Eff(c, r.waddr) /\ a < Eff(c, r.waddr) + r.wqty
                          THEN U16At(r.data, 2 * (a - Eff(c, r.waddr)) + 1) ELSE NoWrite

Init == /\ ctx \in Layouts
        /\ req = [k |-> "none", fc |-> 0]
        /\ rsp = [t |-> "none"]
        /\ lw = [cell \in Cells(ctx) |-> Val(ctx.blocks[cell[1]], cell[2])]

Step(r) ==
  LET e == Exec(ctx, r) IN
  /\ req' = r
  /\ rsp' = e.rsp
  /\ ctx' = e.ctx
  /\ lw' = IF ExpectedExc(ctx, r) # 0 THEN lw
           ELSE [cell \in DOMAIN lw |-> IF Written(ctx, r, cell) = NoWrite THEN lw[cell] ELSE Written(ctx, r, cell)]

Next == \E r \in Reqs : Step(r)
Spec == Init /\ [][Next]_vars

(* ---- properties -------------------------------------------------------- *)
(* C04: the store always equals the ghost "last written" image *)
StoreIsLastWritten == \A cell \in DOMAIN lw : Val(ctx.blocks[cell[1]], cell[2]) = lw[cell]
(* C04/C18: the populated extent never changes and no value lives outside it *)
ExtentStable == /\ DOMAIN lw = Cells(ctx)
                /\ \A id \in DOMAIN ctx.blocks : DOMAIN ctx.blocks[id].ov \subseteq BlockCells(ctx.blocks[id])
(* C04: a read returns the last written values of exactly the addressed cells, in order;
   FC23 reads after its own write (lw' is the image after this request).
   req/rsp are observation variables: every property about them is an action property over
   (ctx, lw) and (req', rsp', ctx', lw') so that VIEW <<ctx, lw>> can hide them soundly. *)
ReadFreshA ==
  /\ (req'.k = "read" /\ ~IsExc(rsp')) =>
        LET got == IF req'.fc \in {1,2} THEN rsp'.bits ELSE rsp'.regs IN
        /\ Len(got) = req'.qty
        /\ \A i \in 1..req'.qty : got[i] = lw'[<<Table(ctx, req'.fc), Eff(ctx, req'.addr) + i - 1>>]
  /\ (req'.k = "rw" /\ ~IsExc(rsp')) =>
        /\ Len(rsp'.regs) = req'.rqty
        /\ \A i \in 1..req'.rqty : rsp'.regs[i] = lw'[<<Table(ctx, 23), Eff(ctx, req'.raddr) + i - 1>>]
ReadFresh == [][ReadFreshA]_vars
(* C04: write responses echo the request *)
EchoA ==
  ~IsExc(rsp') =>
    CASE req'.k = "w1" /\ req'.fc = 5 -> rsp' = [t |-> "WriteCoilRsp", addr |-> req'.addr, on |-> IF req'.word = 65280 THEN 1 ELSE 0]
      [] req'.k = "w1" /\ req'.fc = 6 -> rsp' = [t |-> "WriteRegRsp", addr |-> req'.addr, val |-> req'.word]
      [] req'.k = "wn" -> rsp'.addr = req'.addr /\ rsp'.qty = req'.qty
      [] req'.k = "mask" -> rsp' = [t |-> "MaskWriteRsp", addr |-> req'.addr, andm |-> req'.andm, orm |-> req'.orm]
      [] OTHER -> TRUE
EchoRule == [][EchoA]_vars
(* C04: a write changes only addressed cells of the table its function code selects *)
FrameRule == [][Changed(ctx, ctx') \subseteq Addressed(ctx, req')]_vars
(* C05: the exception code is the one the flow charts demand, with fc | 0x80 *)
ExcCodeRule == [][ LET x == ExpectedExc(ctx, req') IN
                   IF x = 0 THEN ~IsExc(rsp') ELSE rsp' = [t |-> "Exception", fc |-> req'.fc, code |-> x] ]_vars
(* C05: an exception response means nothing changed *)
ExcNoChange == [][IsExc(rsp') => ctx' = ctx]_vars
(* the encoded response is a conformant PDU that decodes to itself *)
RspRoundTrip == [][Canon(DecodeRsp(Encode(rsp'))) = Canon(rsp')]_vars

(* ---- behaviour generation ---------------------------------------------- *)
ExportState == ExportStates => PrintT(<<"STATE", ToJson(ctx)>>)
ASSUME ExportStates => PrintT(<<"REQS", ToJson(Reqs)>>)
View == <<ctx, lw>>
=============================================================================
