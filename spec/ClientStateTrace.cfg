SPECIFICATION Spec
CONSTANTS
  SDev = {"EnvFullWrites"}
CHECK_DEADLOCK FALSE
