SPECIFICATION Spec
CONSTANTS
  SDev = {}
CHECK_DEADLOCK FALSE
