SPECIFICATION Spec
CONSTANTS
  TidSpace = 4
  MaxD = 5
  ADev = {}
INVARIANT FiresOnce
INVARIANT Match
INVARIANT Distinct
INVARIANT LossFailsAll
INVARIANT NeverForgotten
CHECK_DEADLOCK FALSE
