------------------------------- MODULE Bytes -------------------------------
(***************************************************************************)
(* Byte-level vocabulary shared by every other module: big-endian 16-bit   *)
(* fields, LSB-first bit packing, CRC-16/Modbus (bit-serial definition,    *)
(* reflected polynomial 0xA001, initial value 0xFFFF), LRC, ASCII hex.     *)
(* Written from the Modbus documents, not from pymodbus/utilities.py: the  *)
(* CRC here is bit-serial on purpose so that it shares nothing with the    *)
(* table-driven implementation it is the oracle for.                       *)
(***************************************************************************)
EXTENDS Naturals, Sequences, Bitwise, FiniteSets

Byte == 0..255

Pow2(k) == CASE k = 0 -> 1 [] k = 1 -> 2 [] k = 2 -> 4 [] k = 3 -> 8 [] k = 4 -> 16
             [] k = 5 -> 32 [] k = 6 -> 64 [] k = 7 -> 128 [] k = 8 -> 256

Hi(v) == (v \div 256) % 256
Lo(v) == v % 256
U16(v) == <<Hi(v), Lo(v)>>
U16At(b, i) == b[i] * 256 + b[i + 1]            \* big-endian word at positions i, i+1

Drop(s, n) == IF n >= Len(s) THEN <<>> ELSE SubSeq(s, n + 1, Len(s))
Take(s, n) == IF n >= Len(s) THEN s ELSE SubSeq(s, 1, n)
Slice(s, i, n) == SubSeq(s, i, i + n - 1)        \* n elements starting at i
Seq2Set(s) == {s[i] : i \in 1..Len(s)}
IsBytes(s) == \A i \in 1..Len(s) : s[i] \in Byte

RECURSIVE SumSeq(_)
SumSeq(s) == IF s = <<>> THEN 0 ELSE s[1] + SumSeq(Tail(s))

RECURSIVE Flatten(_)
Flatten(ss) == IF ss = <<>> THEN <<>> ELSE ss[1] \o Flatten(Tail(ss))

(* bits are 0/1; first bit of the list is the LSB of the first byte; the   *)
(* unused high bits of the last byte are zero                              *)
BitAt(bits, i) == IF i <= Len(bits) THEN bits[i] ELSE 0
PackBits(bits) ==
  [j \in 1..((Len(bits) + 7) \div 8) |->
      BitAt(bits, 8*(j-1)+1)       + 2 * BitAt(bits, 8*(j-1)+2)
    + 4 * BitAt(bits, 8*(j-1)+3)   + 8 * BitAt(bits, 8*(j-1)+4)
    + 16 * BitAt(bits, 8*(j-1)+5)  + 32 * BitAt(bits, 8*(j-1)+6)
    + 64 * BitAt(bits, 8*(j-1)+7)  + 128 * BitAt(bits, 8*(j-1)+8)]
UnpackBits(bytes) ==
  [i \in 1..(8 * Len(bytes)) |-> (bytes[((i-1) \div 8) + 1] \div Pow2((i-1) % 8)) % 2]
PadBits(bits) == UnpackBits(PackBits(bits))      \* zero-padded to a byte boundary
Words(ws) == Flatten([i \in 1..Len(ws) |-> U16(ws[i])])
WordsAt(b, i, n) == [k \in 1..n |-> U16At(b, i + 2*(k-1))]

(* CRC-16/Modbus ------------------------------------------------------- *)
CrcShift(c) == IF c % 2 = 1 THEN shiftR(c, 1) ^^ 40961 ELSE shiftR(c, 1)
CrcByte(c, b) ==
  LET x == c ^^ b IN
  CrcShift(CrcShift(CrcShift(CrcShift(CrcShift(CrcShift(CrcShift(CrcShift(x))))))))
RECURSIVE CrcFrom(_, _, _)
CrcFrom(c, s, i) == IF i > Len(s) THEN c ELSE CrcFrom(CrcByte(c, s[i]), s, i + 1)
CRC16(s) == CrcFrom(65535, s, 1)                  \* numeric value of the register
CrcWire(s) == <<Lo(CRC16(s)), Hi(CRC16(s))>>      \* as transmitted: low byte first

(* LRC: two's complement of the 8-bit sum ------------------------------- *)
LRC(s) == (256 - (SumSeq(s) % 256)) % 256

(* ASCII hex ------------------------------------------------------------ *)
HexDigit(n) == IF n < 10 THEN 48 + n ELSE 55 + n     \* '0'..'9', 'A'..'F' (upper case)
HexOf(b) == <<HexDigit(b \div 16), HexDigit(b % 16)>>
HexEnc(s) == Flatten([i \in 1..Len(s) |-> HexOf(s[i])])
IsHexChar(c) == (c >= 48 /\ c <= 57) \/ (c >= 65 /\ c <= 70) \/ (c >= 97 /\ c <= 102)
HexVal(c) == IF c <= 57 THEN c - 48 ELSE IF c <= 70 THEN c - 55 ELSE c - 87
IsHexStr(s) == Len(s) % 2 = 0 /\ \A i \in 1..Len(s) : IsHexChar(s[i])
HexDec(s) == [i \in 1..(Len(s) \div 2) |-> 16 * HexVal(s[2*i-1]) + HexVal(s[2*i])]
=============================================================================
