-------------------------------- MODULE PduMC --------------------------------
(***************************************************************************)
(* C01 (spec side): every message of a boundary domain is a state; TLC     *)
(* checks that the transcription of the standard is self-consistent:       *)
(* Decode(Encode(m)) = m up to bit padding, a message within the           *)
(* standard's quantity limits encodes to at most 253 bytes, byte-count     *)
(* fields equal the length of the data they announce, exception PDUs are   *)
(* fc|0x80 + code.  With Export = TRUE every state is printed as a vector  *)
(* (message, PDU bytes) that the harness replays into the real codecs.     *)
(***************************************************************************)
EXTENDS ModbusPDU, TLC, Json

CONSTANT Export
VARIABLE msg
vars == <<msg>>

WB == {0, 1, 2, 7, 8, 9, 255, 256, 32767, 32768, 65535}
WS == {0, 1, 255, 256, 65535}
Pat(n) == { [i \in 1..n |-> 0], [i \in 1..n |-> 1], [i \in 1..n |-> i % 2],
            [i \in 1..n |-> IF i = 1 \/ i = n THEN 1 ELSE 0] }
WPat(n) == { [i \in 1..n |-> 0], [i \in 1..n |-> 65535], [i \in 1..n |-> (i * 257) % 65536] }
BitLens == {1, 7, 8, 9, 15, 16, 17, 1967, 1968, 1969, 1999, 2000, 2001, 2040}
RegLens == {0, 1, 2, 120, 121, 122, 123, 124, 125, 126, 127}
Dir(m) == IF m.t = "Exception" \/ m.t \in {"ReadCoilsRsp", "ReadDiscreteRsp", "ReadHoldingRsp", "ReadInputRsp", "ReadWriteRsp",
             "WriteCoilRsp", "WriteRegRsp", "WriteCoilsRsp", "WriteRegsRsp", "MaskWriteRsp", "ExcStatusRsp", "EventCounterRsp",
             "EventLogRsp", "SlaveIdRsp", "DiagRsp", "ReadFileRsp", "WriteFileRsp", "FifoRsp", "DevIdRsp"} THEN "rsp" ELSE "req"

Domain ==
  {[t |-> "Exception", fc |-> f, code |-> c] : f \in SupportedFc, c \in 0..255}
  \cup {[t |-> tg, addr |-> a, qty |-> q] : tg \in {"ReadCoilsReq", "ReadDiscreteReq", "ReadHoldingReq", "ReadInputReq",
                                                    "WriteCoilsRsp", "WriteRegsRsp"},
          a \in WB, q \in WB \cup {124, 125, 126, 1999, 2000, 2001}}
  \cup UNION {{[t |-> tg, bits |-> b] : tg \in {"ReadCoilsRsp", "ReadDiscreteRsp"}, b \in Pat(n)} : n \in BitLens}
  \cup UNION {{[t |-> tg, regs |-> r] : tg \in {"ReadHoldingRsp", "ReadInputRsp", "ReadWriteRsp"}, r \in WPat(n)} : n \in RegLens}
  \cup {[t |-> tg, addr |-> a, on |-> o] : tg \in {"WriteCoilReq", "WriteCoilRsp"}, a \in WB, o \in {0, 1}}
  \cup {[t |-> tg, addr |-> a, val |-> v] : tg \in {"WriteRegReq", "WriteRegRsp"}, a \in WB, v \in WB}
  \cup UNION {{[t |-> "WriteCoilsReq", addr |-> a, bits |-> b] : a \in WS, b \in Pat(n)} : n \in BitLens}
  \cup UNION {{[t |-> "WriteRegsReq", addr |-> a, regs |-> r] : a \in WS, r \in WPat(n)} : n \in RegLens \ {0}}
  \cup {[t |-> tg, addr |-> a, andm |-> x, orm |-> y] : tg \in {"MaskWriteReq", "MaskWriteRsp"}, a \in WS, x \in WB, y \in WB}
  \cup UNION {{[t |-> "ReadWriteReq", raddr |-> ra, rqty |-> rq, waddr |-> wa, regs |-> r] :
                 ra \in WS, rq \in {0, 1, 125, 126, 65535}, wa \in WS, r \in WPat(n)} : n \in {1, 2, 120, 121, 122, 127}}
  \cup {[t |-> tg] : tg \in {"ExcStatusReq", "EventCounterReq", "EventLogReq", "SlaveIdReq"}}
  \cup {[t |-> "ExcStatusRsp", status |-> s] : s \in 0..255}
  \cup {[t |-> "EventCounterRsp", ready |-> r, count |-> c] : r \in {0, 1}, c \in WB}
  \cup UNION {{[t |-> "EventLogRsp", ready |-> r, evcount |-> e, msgcount |-> c, events |-> ev] :
                 r \in {0, 1}, e \in WS, c \in WS, ev \in {[i \in 1..n |-> (i * 37) % 256], [i \in 1..n |-> 0]}} : n \in {0, 1, 2, 64}}
  \cup UNION {{[t |-> "SlaveIdRsp", id |-> d, run |-> r] : r \in {0, 1}, d \in {[i \in 1..n |-> (i * 11) % 256], [i \in 1..n |-> 255]}} :
                 n \in {1, 2, 8, 100}}
  \cup UNION {{[t |-> tg, sub |-> s, data |-> d] : tg \in {"DiagReq", "DiagRsp"},
                 s \in (0..4) \cup (10..21) \cup {5, 22, 65535}, d \in WPat(n)} : n \in {0, 1, 2, 55}}
      \* (the non-conformant combinations are filtered by Expressible)
  \cup UNION {{[t |-> "ReadFileReq", recs |-> [i \in 1..n |-> [file |-> f, rec |-> (i * 1000) % 65536, len |-> l]]] :
                 f \in WS, l \in WS} : n \in {0, 1, 2, 35}}
  \cup UNION {{[t |-> "ReadFileRsp", recs |-> [i \in 1..n |-> [data |-> d]]] : d \in WPat(k)} : n \in {0, 1, 3}, k \in {0, 1, 2, 30}}
  \cup UNION {{[t |-> tg, recs |-> [i \in 1..n |-> [file |-> f, rec |-> i, data |-> d]]] :
                 tg \in {"WriteFileReq", "WriteFileRsp"}, f \in WS, d \in WPat(k)} : n \in {0, 1, 3}, k \in {0, 1, 2, 30}}
  \cup {[t |-> "FifoReq", addr |-> a] : a \in WB}
  \cup UNION {{[t |-> "FifoRsp", regs |-> r] : r \in WPat(n)} : n \in {0, 1, 2, 30, 31}}
  \cup {[t |-> "DevIdReq", code |-> c, oid |-> o] : c \in 0..5, o \in {0, 1, 2, 6, 127, 128, 255}}
  \cup UNION {{[t |-> "DevIdRsp", code |-> c, conf |-> cf, more |-> mo, next |-> nx,
                objs |-> [i \in 1..n |-> [id |-> (i - 1) * 43, val |-> [j \in 1..l |-> 48 + (j % 10)]]]] :
                 c \in {1, 4}, cf \in {1, 131}, mo \in {0, 255}, nx \in {0, 6}} : n \in {0, 1, 3}, l \in {0, 1, 40}}

WithinLimits(m) ==
  CASE m.t \in {"ReadCoilsRsp", "ReadDiscreteRsp"} -> Len(m.bits) <= 2000
    [] m.t \in {"ReadHoldingRsp", "ReadInputRsp", "ReadWriteRsp"} -> Len(m.regs) <= 125
    [] m.t = "WriteCoilsReq" -> Len(m.bits) <= 1968
    [] m.t = "WriteRegsReq" -> Len(m.regs) <= 123
    [] m.t = "ReadWriteReq" -> Len(m.regs) <= 121
    [] OTHER -> TRUE

Init == msg \in Domain
Next == UNCHANGED msg
Spec == Init /\ [][Next]_vars

RoundTrip == Expressible(msg) => Canon(Decode(Dir(msg), Encode(msg))) = Canon(msg)
SizeBound == WithinLimits(msg) => Len(Encode(msg)) <= 253
ExceptionLayout == msg.t = "Exception" => Encode(msg) = <<msg.fc + 128, msg.code>>
ByteCount ==
  LET b == Encode(msg) IN
  CASE msg.t \in {"ReadCoilsRsp", "ReadDiscreteRsp", "ReadHoldingRsp", "ReadInputRsp", "ReadWriteRsp", "EventLogRsp",
                  "SlaveIdRsp", "ReadFileReq", "ReadFileRsp", "WriteFileReq", "WriteFileRsp"} ->
         Expressible(msg) => b[2] = (Len(b) - 2) % 256
    [] msg.t \in {"WriteCoilsReq", "WriteRegsReq"} -> Expressible(msg) => b[6] = Len(b) - 6
    [] msg.t = "ReadWriteReq" -> Expressible(msg) => b[10] = Len(b) - 10
    [] OTHER -> TRUE
ExportVec == Export => PrintT("VECTOR " \o ToJson([m |-> msg, dir |-> Dir(msg), bytes |-> Encode(msg),
                                                   ok |-> IF Expressible(msg) THEN 1 ELSE 0]))
=============================================================================
