SPECIFICATION Spec
CONSTANT CDev = {}
INVARIANT C13SendBound
INVARIANT C13NoRaise
INVARIANT C08OwnOnly
INVARIANT C13Honoured
INVARIANT C08NoInvention
INVARIANT C13Recovers
INVARIANT StepIsRun
PROPERTY C13Termination
CHECK_DEADLOCK FALSE
