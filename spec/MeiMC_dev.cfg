SPECIFICATION Spec
CONSTANTS
  Dev = {}
  Families <- DevFamilies
  ExtraStarts = {5, 7, 130}
INVARIANT SizeBound
INVARIANT RspWellFormed
INVARIANT PageBound
INVARIANT DeliversPrefix
INVARIANT ExactlyOnce
INVARIANT Complete
INVARIANT NoException
INVARIANT MoreFlag
INVARIANT Individual
PROPERTY ChainTerminates
CHECK_DEADLOCK FALSE
