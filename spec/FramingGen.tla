------------------------------ MODULE FramingGen ------------------------------
(***************************************************************************)
(* Behaviour generation for the framing engine: for every                  *)
(* [id, kind, tid, pid, uid, pdu] in the input TLC prints the ADU the      *)
(* specification prescribes (Framing!Build, with the bit-serial CRC / LRC  *)
(* of Bytes).  The harness feeds these frames to the real receivers.       *)
(***************************************************************************)
EXTENDS Framing, TLC, Json, IOUtils
Items == JsonDeserialize(IOEnv.TRACE_FILE).traces
VARIABLES k, out
Init == k \in 1..Len(Items) /\ out = "run"
Next == /\ out = "run"
        /\ LET x == Items[k] IN
           PrintT("VECTOR " \o ToJson([id |-> x.id, bytes |-> Build(x.kind, x.tid, x.pid, x.uid, x.pdu)]))
        /\ out' = "done" /\ UNCHANGED k
Spec == Init /\ [][Next]_<<k, out>>
=============================================================================
