---------------------------- MODULE ServerRelTrace ----------------------------
(***************************************************************************)
(* C17, relational: the same input history was run on several front-ends   *)
(* (runs), or interleaved with other connections versus alone (mode        *)
(* "isolation").  obs = per input event: the frames written back to that    *)
(* connection, the set of store changes, whether the connection was        *)
(* closed.  The formula is equality of the observations; a defect common   *)
(* to all front-ends is deliberately not a C17 violation.                  *)
(*                                                                         *)
(* trace = [id, mode, runs |-> << [fe, obs |-> << [w, chg, closed] >>] >>]  *)
(***************************************************************************)
EXTENDS Naturals, Sequences, FiniteSets, TLC, Json, IOUtils
Traces == JsonDeserialize(IOEnv.TRACE_FILE).traces
VARIABLES tr, out
T == Traces[tr]
Seq2Set(s) == {s[k] : k \in 1..Len(s)}
SameObs(a, b) == /\ Len(a) = Len(b)
                 /\ \A k \in 1..Len(a) : a[k].w = b[k].w /\ Seq2Set(a[k].chg) = Seq2Set(b[k].chg) /\ a[k].closed = b[k].closed
FirstDiff(a, b) == IF Len(a) # Len(b) THEN 0
                   ELSE CHOOSE k \in 1..Len(a) : (a[k].w # b[k].w \/ Seq2Set(a[k].chg) # Seq2Set(b[k].chg) \/ a[k].closed # b[k].closed)
                                                  /\ \A j \in 1..(k-1) : (a[j].w = b[j].w /\ Seq2Set(a[j].chg) = Seq2Set(b[j].chg) /\ a[j].closed = b[j].closed)
Init == tr \in 1..Len(Traces) /\ out = "run"
Next == /\ out = "run"
        /\ LET bad == {p \in (1..Len(T.runs)) \X (1..Len(T.runs)) : p[1] < p[2] /\ ~SameObs(T.runs[p[1]].obs, T.runs[p[2]].obs)} IN
           IF bad = {}
           THEN PrintT("VERDICT " \o ToJson([id |-> T.id, status |-> "OK", step |-> Len(T.runs), clauses |-> {}, detail |-> [n |-> Len(T.runs)]]))
           ELSE LET p == CHOOSE q \in bad : TRUE IN
                PrintT("VERDICT " \o ToJson([id |-> T.id, status |-> "FAIL", step |-> FirstDiff(T.runs[p[1]].obs, T.runs[p[2]].obs),
                        clauses |-> {IF T.mode = "isolation" THEN "Isolation" ELSE "Interchangeable"},
                        detail |-> [a |-> T.runs[p[1]].fe, b |-> T.runs[p[2]].fe]]))
        /\ out' = "done" /\ UNCHANGED tr
Spec == Init /\ [][Next]_<<tr, out>>
=============================================================================
