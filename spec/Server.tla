------------------------------- MODULE Server -------------------------------
(***************************************************************************)
(* What a Modbus server front-end owes its peers (C09, C10, C12, C17),     *)
(* independent of which front-end (threaded, asyncio, Twisted; stream or   *)
(* datagram) provides it.                                                  *)
(*                                                                         *)
(*   cfg  = [single, hosted (set of unit ids), broadcast, ignore]          *)
(*   tab  = function hosted unit id -> DataModel context  (in single mode  *)
(*          the one context is stored under unit 0)                        *)
(*   a request frame = [uid, tid, pid, pdu]                                *)
(*                                                                         *)
(* Serve(cfg, tab, f) = the set of allowed outcomes [rsp, tab] where rsp   *)
(* is <<>> (silence) or <<[uid, tid, pid, pdu]>>.  The only freedom the    *)
(* properties leave is the answer to a request for a unit that is not      *)
(* hosted: silence or a gateway exception (0x0A / 0x0B).                   *)
(***************************************************************************)
EXTENDS DataModel

Target(cfg, uid) ==
  IF cfg.broadcast /\ uid = 0 THEN "broadcast"
  ELSE IF cfg.single THEN "only"
  ELSE IF uid \in cfg.hosted THEN "unit"
  ELSE "missing"
Key(cfg, uid) == IF cfg.single THEN 0 ELSE uid

Rsp(f, pdu) == <<[uid |-> f.uid, tid |-> f.tid, pid |-> f.pid, pdu |-> pdu]>>

(* requests the data model judges completely; for the others only the response header is constrained *)
Known(pdu) == Judged(ParseReq(pdu))
AnyData == <<999>>     \* marker: response data not constrained by this engine (C01/C20 judge it)

(* Force Listen Only Mode (FC 8, sub-function 4): "no response is returned" (6.8.1) *)
IsListenOnlyReq(pdu) == Len(pdu) >= 3 /\ pdu[1] = 8 /\ U16At(pdu, 2) = 4

Serve(cfg, tab, f) ==
  LET tg == Target(cfg, f.uid) IN
  CASE IsListenOnlyReq(f.pdu) -> {[rsp |-> <<>>, tab |-> tab]}
    [] tg = "missing" ->
         IF cfg.ignore THEN {[rsp |-> <<>>, tab |-> tab]}
         ELSE {[rsp |-> <<>>, tab |-> tab],
               [rsp |-> Rsp(f, <<(f.pdu[1] + 128) % 256, 10>>), tab |-> tab],
               [rsp |-> Rsp(f, <<(f.pdu[1] + 128) % 256, 11>>), tab |-> tab]}
    [] tg = "broadcast" ->
         IF Known(f.pdu)
         THEN {[rsp |-> <<>>, tab |-> [u \in DOMAIN tab |-> Exec(tab[u], ParseReq(f.pdu)).ctx]]}
         ELSE {[rsp |-> <<>>, tab |-> tab]}
    [] OTHER ->
         IF Known(f.pdu)
         THEN LET e == Exec(tab[Key(cfg, f.uid)], ParseReq(f.pdu)) IN
              {[rsp |-> Rsp(f, Encode(e.rsp)), tab |-> [tab EXCEPT ![Key(cfg, f.uid)] = e.ctx]]}
         ELSE {[rsp |-> Rsp(f, <<f.pdu[1]>> \o AnyData), tab |-> tab]}

(* does an observed response frame o satisfy an expected one e? (header always; data when known) *)
HeaderOK(kind, o, e) == /\ o.uid = e.uid
                        /\ (kind = "tcp" => o.tid = e.tid)     \* (the protocol id is not part of C09's statement)
                        /\ Len(o.pdu) >= 1 /\ (o.pdu[1] = e.pdu[1] \/ o.pdu[1] = (e.pdu[1] + 128) % 256)
RspOK(kind, o, e) == HeaderOK(kind, o, e) /\ (Drop(e.pdu, 1) = AnyData \/ o.pdu = e.pdu)
=============================================================================
