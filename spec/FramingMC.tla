----------------------------- MODULE FramingMC -----------------------------
(***************************************************************************)
(* Reference receivers for the TCP, RTU and ASCII framings and an          *)
(* environment that hands a byte stream over in every possible chunking    *)
(* (Feed(k) for every 0 <= k <= remaining bytes: all arrival schedules,    *)
(* empty reads included).  The stream is chosen from `Streams': valid      *)
(* frames from a small pool, optionally with one fault (bit flip, byte     *)
(* substitution, deletion, insertion, truncation) or a garbage prefix.     *)
(*                                                                         *)
(* Checked: C06 PrefixOK / Complete (valid streams), C07 Justified (any    *)
(* stream), C11 Resync (garbage prefix then valid frames), for the         *)
(* reference design; the deviations (RDev) must each be rejected:          *)
(*   ResetOnIncomplete : an incomplete frame at the end of a read is       *)
(*                       thrown away (socket/binary framer, pinned tree)   *)
(*   OneFramePerCall   : at most one delivery per read (RTU, pinned tree)  *)
(*   NoChecksum        : the integrity check is skipped                    *)
(*   KeepBadHead       : a frame with a bad LRC stays at the buffer head   *)
(***************************************************************************)
EXTENDS Framing, TLC

CONSTANTS Kind, Dir, RDev, Mode     \* Mode \in {"valid", "fault", "garbage"}
VARIABLES stream, wire, buf, delivered, ncalls
vars == <<stream, wire, buf, delivered, ncalls>>

Units == {1}

(* ---- pool --------------------------------------------------------------- *)
PoolPdus == IF Dir = "req" THEN { <<7>>, <<3, 0, 1, 0, 2>>, <<16, 0, 1, 0, 1, 2, 58, 13>> }
            ELSE { <<7, 10>>, <<131, 2>>, <<3, 2, 58, 13>> }
FrameOf(uid, tid, pdu) == [uid |-> uid, tid |-> tid, pid |-> 0, pdu |-> pdu, bytes |-> Build(Kind, tid, 0, uid, pdu)]
PoolFrames == {FrameOf(1, t, p) : t \in {1}, p \in PoolPdus}
Foreign == FrameOf(2, 9, CHOOSE p \in PoolPdus : TRUE)

(* a stream = [bytes, sent (ghost), g] *)
MkStream(fs, pre) ==
  LET starts == [k \in 1..Len(fs) |-> Len(pre) + 1 + SumSeq([j \in 1..(k-1) |-> Len(fs[j].bytes)])] IN
  [bytes |-> pre \o Flatten([k \in 1..Len(fs) |-> fs[k].bytes]),
   sent |-> [k \in 1..Len(fs) |-> [start |-> starts[k], len |-> Len(fs[k].bytes), uid |-> fs[k].uid, tid |-> fs[k].tid,
                                   pid |-> 0, pdu |-> fs[k].pdu, exp |-> IF fs[k].uid \in Units THEN 1 ELSE 0]],
   g |-> Len(pre)]
ValidStreams == {MkStream(<<a>>, <<>>) : a \in PoolFrames} \cup {MkStream(<<a, b>>, <<>>) : a \in PoolFrames, b \in PoolFrames}
                \cup {MkStream(<<a, Foreign, a>>, <<>>) : a \in PoolFrames}
(* one fault applied to the first frame of a two-frame stream; the faulty frame is no longer expected *)
Faulty(s) ==
  LET b == s.bytes n == s.sent[1].len
      dead == [s.sent EXCEPT ![1].exp = 0]
  IN  {[s EXCEPT !.bytes = [b EXCEPT ![i] = (b[i] + 1) % 256], !.sent = dead] : i \in 1..n}                  \* substitution
      \cup {[s EXCEPT !.bytes = [b EXCEPT ![i] = IF b[i] >= 128 THEN b[i] - 128 ELSE b[i] + 128], !.sent = dead] : i \in 1..n}  \* bit flip
      \cup {[bytes |-> SubSeq(b, 1, i - 1) \o SubSeq(b, i + 1, Len(b)), g |-> 0,
             sent |-> [k \in 1..Len(s.sent) |-> IF k = 1 THEN [s.sent[1] EXCEPT !.exp = 0, !.len = n - 1]
                                               ELSE [s.sent[k] EXCEPT !.start = @ - 1]]] : i \in 1..n}      \* deletion
      \cup {[bytes |-> SubSeq(b, 1, i) \o <<v>> \o SubSeq(b, i + 1, Len(b)), g |-> 0,
             sent |-> [k \in 1..Len(s.sent) |-> IF k = 1 THEN [s.sent[1] EXCEPT !.exp = 0, !.len = n + 1]
                                               ELSE [s.sent[k] EXCEPT !.start = @ + 1]]] : i \in 0..n, v \in {0, 58, 255}}  \* insertion
FaultStreams == UNION {Faulty(MkStream(<<a, b>>, <<>>)) : a \in PoolFrames, b \in PoolFrames}
GarbagePrefixes == { <<0>>, <<255, 255>>, <<58>>, <<13, 10>>, <<58, 48, 49>>, <<1, 3>>, <<1, 16, 0, 1, 0, 1, 4>> }
                   \cup {SubSeq(f.bytes, 1, Len(f.bytes) - 1) : f \in PoolFrames}
                   \cup {[f.bytes EXCEPT ![Len(f.bytes) - 2] = (@ + 1) % 256] : f \in PoolFrames}
GarbageStreams == {MkStream(<<a, a, a>>, pre) : a \in PoolFrames, pre \in GarbagePrefixes}
Streams == CASE Mode = "valid" -> ValidStreams [] Mode = "fault" -> FaultStreams [] Mode = "garbage" -> GarbageStreams

(* ---- reference receivers: Rx(buf) = [out |-> deliveries, buf |-> what stays buffered] ---- *)
Deliv(uid, tid, pid, pdu) == [uid |-> uid, tid |-> tid, pid |-> pid, pdu |-> pdu]
RECURSIVE RxTcp(_, _)
RxTcp(b, one) ==
  IF Len(b) < 7 THEN [out |-> <<>>, buf |-> b]
  ELSE LET len == U16At(b, 5) IN
       IF len < 2 THEN [out |-> <<>>, buf |-> <<>>]                    \* protocol error: the stream cannot be trusted any more
       ELSE IF Len(b) < 6 + len
            THEN [out |-> <<>>, buf |-> IF "ResetOnIncomplete" \in RDev THEN <<>> ELSE b]
       ELSE LET d == Deliv(b[7], U16At(b, 1), U16At(b, 3), SubSeq(b, 8, 6 + len))
                r == IF one THEN [out |-> <<>>, buf |-> Drop(b, 6 + len)] ELSE RxTcp(Drop(b, 6 + len), one)
            IN [out |-> (IF d.uid \in Units THEN <<d>> ELSE <<>>) \o r.out, buf |-> r.buf]

MaxRtuMC == 24      \* the model's "no RTU frame is longer than this" (256 bytes in reality), scaled to the pool
KnownFc(fc) == IF Dir = "req" THEN fc \in SupportedFc ELSE (fc >= 128 \/ fc \in SupportedFc \ {43})
RECURSIVE RxRtu(_, _)
RxRtu(b, one) ==
  IF Len(b) < 2 THEN [out |-> <<>>, buf |-> b]
  ELSE IF ~KnownFc(b[2]) THEN RxRtu(Tail(b), one)                      \* cannot start a frame: slide by one byte
  ELSE LET n == RtuLen(Dir, b) IN
       IF n > MaxRtuMC THEN RxRtu(Tail(b), one)                        \* longer than any frame can be (256 in reality): not a frame start
       ELSE IF n = 0 \/ Len(b) < n THEN [out |-> <<>>, buf |-> IF "ResetOnIncomplete" \in RDev THEN <<>> ELSE b]
       ELSE IF "NoChecksum" \in RDev \/ SubSeq(b, n - 1, n) = CrcWire(SubSeq(b, 1, n - 2))
            THEN LET d == Deliv(b[1], 0, 0, SubSeq(b, 2, n - 2))
                     r == IF one THEN [out |-> <<>>, buf |-> Drop(b, n)] ELSE RxRtu(Drop(b, n), one)
                 IN [out |-> (IF d.uid \in Units THEN <<d>> ELSE <<>>) \o r.out, buf |-> r.buf]
            ELSE RxRtu(Tail(b), one)                                   \* bad CRC: slide by one byte and resynchronise

FirstIdx(b, v, from) == IF \E k \in from..Len(b) : b[k] = v THEN CHOOSE k \in from..Len(b) : b[k] = v /\ \A j \in from..(k-1) : b[j] # v ELSE 0
RECURSIVE RxAscii(_, _)
RxAscii(b, one) ==
  LET s == FirstIdx(b, Colon, 1) IN
  IF s = 0 THEN [out |-> <<>>, buf |-> <<>>]                           \* nothing that could start a frame
  ELSE IF s > 1 THEN RxAscii(Drop(b, s - 1), one)
  ELSE LET s2 == FirstIdx(b, Colon, 2)
           e == FirstIdx(b, LF, 2)
       IN IF s2 # 0 /\ (e = 0 \/ s2 < e) THEN RxAscii(Drop(b, s2 - 1), one)     \* a new start before the end: abandon the partial frame
          ELSE IF e = 0 THEN (IF Len(b) > 513 THEN RxAscii(Tail(b), one) ELSE [out |-> <<>>, buf |-> b])
          ELSE LET body == SubSeq(b, 2, e - 2)
                   good == e >= 3 /\ b[e - 1] = CR /\ IsHexStr(body) /\ Len(body) >= 6
                           /\ ("NoChecksum" \in RDev \/ LRC(HexDec(SubSeq(body, 1, Len(body) - 2))) = HexDec(body)[Len(body) \div 2])
               IN IF ~good
                  THEN (IF "KeepBadHead" \in RDev THEN [out |-> <<>>, buf |-> b] ELSE RxAscii(Drop(b, e), one))
                  ELSE LET raw == HexDec(body)
                           d == Deliv(raw[1], 0, 0, SubSeq(raw, 2, Len(raw) - 1))
                           r == IF one THEN [out |-> <<>>, buf |-> Drop(b, e)] ELSE RxAscii(Drop(b, e), one)
                       IN [out |-> (IF d.uid \in Units THEN <<d>> ELSE <<>>) \o r.out, buf |-> r.buf]

Rx(b) == LET one == "OneFramePerCall" \in RDev IN
         CASE Kind = "tcp" -> RxTcp(b, one) [] Kind = "rtu" -> RxRtu(b, one) [] Kind = "ascii" -> RxAscii(b, one)

(* ---- behaviour ------------------------------------------------------------ *)
Init == /\ stream \in Streams
        /\ wire = stream.bytes
        /\ buf = <<>> /\ delivered = <<>> /\ ncalls = 0
Feed(k) == /\ LET r == Rx(buf \o SubSeq(wire, 1, k)) IN
              /\ buf' = r.buf
              /\ delivered' = delivered \o r.out
           /\ wire' = Drop(wire, k)
           /\ ncalls' = IF ncalls < 2 THEN ncalls + 1 ELSE ncalls
           /\ UNCHANGED stream
Next == \E k \in 0..Len(wire) : (k > 0 \/ ncalls < 2) /\ Feed(k)
Spec == Init /\ [][Next]_vars /\ WF_vars(\E k \in 1..Len(wire) : Feed(k))

(* ---- properties ------------------------------------------------------------ *)
ExpSeq == SelectSeq(stream.sent, LAMBDA f : f.exp = 1)
Same(d, e) == d.pdu = e.pdu /\ d.uid = e.uid /\ (Kind = "tcp" => d.tid = e.tid /\ d.pid = e.pid)
IsPrefixOf(ds, es) == Len(ds) <= Len(es) /\ \A k \in 1..Len(ds) : Same(ds[k], es[k])
Fed == SubSeq(stream.bytes, 1, Len(stream.bytes) - Len(wire))
PrefixOK == Mode = "valid" => IsPrefixOf(delivered, ExpSeq)
Complete == (Mode = "valid" /\ wire = <<>>) => (Len(delivered) = Len(ExpSeq) /\ IsPrefixOf(delivered, ExpSeq))
JustifiedAll == \A k \in 1..Len(delivered) : Justified(Kind, delivered[k], Fed)
(* C11 (scaled): after the garbage, at most the first following frame may be lost; the last two of three are delivered *)
Resync == (Mode = "garbage" /\ wire = <<>>) =>
            \E k \in 1..Len(delivered) : k + 1 <= Len(delivered)
                 /\ Same(delivered[k], ExpSeq[2]) /\ Same(delivered[k + 1], ExpSeq[3])
BacklogBounded == Mode = "garbage" => Len(buf) <= 2 * 20 + 20 + stream.g
EventuallyAll == <>(wire = <<>>)
View == <<stream, wire, buf, delivered>>
=============================================================================
