------------------------------- MODULE MeiMC -------------------------------
(***************************************************************************)
(* The client side of property C20 as a state machine: a client asks for   *)
(* (code, start), and while the answer says "more follows" asks again for  *)
(* the announced next object id, appending what it receives.  The server   *)
(* is Mei!Respond (stateless).  Exhaustive over a family of identities     *)
(* (object ids {0,1,2,3,6,128,129,255}, value lengths around every packing *)
(* boundary of a 253-byte PDU), the four read codes and every start id in  *)
(* {0} + populated + some unpopulated ones.                                *)
(*                                                                         *)
(* The properties are written against Mei!Expected (declarative), never    *)
(* against Respond.  With Dev = {} TLC must find no violation; with each   *)
(* named deviation it must find one.                                       *)
(***************************************************************************)
EXTENDS Mei, TLC

CONSTANTS Families,        \* names of the identity families explored (see Fam)
          ExtraStarts      \* start ids tried besides 0 and the populated ones

VARIABLES idn, code, start,      \* the scenario (constant along a behaviour)
          oid,                   \* object id of the next request
          got,                   \* objects collected so far, in arrival order
          pages,                 \* number of request/response exchanges so far (saturates at PageCap)
          done,                  \* the client stopped: last answer had more-follows = 0 or was an exception
          rsp,                   \* last response message (observation)
          judged, exp, npop      \* ghosts fixed by Init: Mei!Judged, Mei!Expected, Mei!NPop of the scenario
vars == <<idn, code, start, oid, got, pages, done, rsp, judged, exp, npop>>

PageCap == 12                    \* > 8 objects + 1: keeps the state space finite for non-terminating deviations

(* ---- identity families --------------------------------------------------- *)
MCIds == {0, 1, 2, 3, 6, 128, 129, 255}
MkVal(x, n) == [k \in 1..n |-> (7 * x + k) % 256]          \* content depends on the id: a swapped value is visible
MkIdn(lens) == [x \in MCIds |-> MkVal(x, lens[x])]
(* families are sets of length functions; the byte values are only built in Init (TLC evaluates constant
   definitions eagerly: tens of thousands of 2000-byte identities there cost minutes)                    *)
(* every assignment of the lengths Ls (0 = unset) to the ids S, the other ids unset *)
Combos(S, Ls) == {[x \in MCIds |-> IF x \in S THEN f[x] ELSE 0] : f \in [S -> Ls]}
(* all eight ids populated with `base'; one pair of ids takes every pair of lengths from Ls *)
Pairs(base, Ls) == {[x \in MCIds |-> IF x = p[1] THEN p[3] ELSE IF x = p[2] THEN p[4] ELSE base] :
                      p \in {q \in MCIds \X MCIds \X Ls \X Ls : q[1] < q[2]}}
Uniform(Ls) == {[x \in MCIds |-> n] : n \in Ls}

Lens == {0, 1, 100, 121, 122, 123, 200, 243, 244}           \* 2+121+2+121 = 246 fits exactly, 121/122 is one over
Over == {0, 1, 244, 245}                                    \* 245 fits no PDU

(* Families are looked up by name through an operator with a parameter: TLC evaluates every zero-arity
   constant definition eagerly, once per worker, and unions of large sets there are quadratic.          *)
Fam(n) ==
  CASE n = "c_0_1_2_128"   -> Combos({0, 1, 2, 128}, Lens)
    [] n = "c_1_3_6_255"   -> Combos({1, 3, 6, 255}, Lens)
    [] n = "c_0_3_128_129" -> Combos({0, 3, 128, 129}, Lens)
    [] n = "c_2_6_129_255" -> Combos({2, 6, 129, 255}, Lens)
    [] n = "c_0_1_2_3"     -> Combos({0, 1, 2, 3}, Lens)
    [] n = "c_6_128_129_255" -> Combos({6, 128, 129, 255}, Lens)
    [] n = "q_0_2_3_128"   -> Combos({0, 2, 3, 128}, Lens \ {123})
    [] n = "q_1_6_255"     -> Combos({1, 6, 255}, Lens \ {123})
    [] n = "o_0_2_129"     -> Combos({0, 2, 129}, Over)
    [] n = "o_1_6_128_255" -> Combos({1, 6, 128, 255}, Over)
    [] n = "p_1"           -> Pairs(1, {121, 122, 244})
    [] n = "p_100"         -> Pairs(100, {1, 121, 122, 123, 243, 244, 245})
    [] n = "u"             -> Uniform({1, 100, 121, 122, 244, 245})
    (* the smallest family on which every deviation shows (used for the Dev runs) *)
    [] n = "d_0_1_128"     -> Combos({0, 1, 128}, {0, 1, 121, 122, 244, 245})
    [] n = "d_u"           -> Uniform({100, 121})
QuickFamilies == {"q_0_2_3_128", "q_1_6_255", "o_0_2_129", "p_1", "u"}
BaseFamilies  == QuickFamilies \cup {"c_0_1_2_128", "c_1_3_6_255", "c_0_3_128_129", "c_2_6_129_255", "c_0_1_2_3", "c_6_128_129_255",
                                     "o_1_6_128_255", "p_100"}
DevFamilies   == {"d_0_1_128", "d_u"}
LiveFamilies  == {"d_0_1_128", "d_u", "o_0_2_129"}        \* liveness is checked on these in the quick tier

(* ---- the client loop ------------------------------------------------------ *)
NoRsp == [t |-> "Exception", fc |-> 43, code |-> 0]          \* placeholder before the first answer

Init == /\ \E f \in Families : \E l \in Fam(f) : idn = MkIdn(l)
        /\ npop = NPop(idn)
        /\ code \in 1..4
        /\ start \in {0} \cup PopIds(idn) \cup ExtraStarts
        /\ judged = Judged(idn, code, start)
        /\ exp = IF judged THEN Expected(idn, code, start) ELSE <<>>
        /\ oid = start
        /\ got = <<>>
        /\ pages = 0
        /\ done = FALSE
        /\ rsp = NoRsp

Request ==
  /\ ~done
  /\ LET r == Respond(idn, code, oid) IN
     /\ rsp' = r
     /\ pages' = IF pages < PageCap THEN pages + 1 ELSE pages
     /\ IF r.t = "Exception"
        THEN got' = got /\ oid' = oid /\ done' = TRUE
        ELSE /\ got' = IF pages < PageCap THEN got \o r.objs ELSE got
             /\ IF r.more = More THEN oid' = r.next /\ done' = FALSE
                                 ELSE oid' = oid /\ done' = TRUE
  /\ UNCHANGED <<idn, code, start, judged, exp, npop>>

Next == Request
Spec == Init /\ [][Next]_vars /\ WF_vars(Next)

(* ---- properties (C20) ------------------------------------------------------ *)
J   == judged
Exp == exp
Answered == pages > 0

(* no response PDU exceeds 253 bytes -- for every identity and start id, judged or not *)
SizeBound == Len(Encode(rsp)) <= MaxPdu
RspWellFormed == DecodeRsp(Encode(rsp)) = rsp
(* the chain terminates -- for every identity and start id: bounded number of pages (safety) and <>done (liveness) *)
PageBound == pages <= npop + 1
ChainTerminates == <>done
(* what has arrived is always an initial piece of what is demanded: no foreign object, exact values, ascending
   order, nothing skipped, nothing twice *)
DeliversPrefix == J => IsPrefix(got, Exp)
ExactlyOnce == J => Distinct(IdsOf(got))
Complete == (J /\ done) => got = Exp
NoException == (J /\ Answered) => rsp.t = "DevIdRsp"
MoreFlag == (J /\ Answered /\ rsp.t = "DevIdRsp") =>
              /\ rsp.more \in {More, NoMore}
              /\ rsp.code = code
              /\ (rsp.more = More) <=> (got # Exp)
              /\ rsp.more = More => (Len(got) < Len(Exp) /\ rsp.next = Exp[Len(got) + 1].id)
Individual == (code = 4 /\ J /\ done) => (pages = 1 /\ got = <<Obj(idn, start)>>)
=============================================================================
