SPECIFICATION Spec
CONSTANTS
  Kind = "tcp"
  Dir = "req"
  RDev = {}
  Mode = "valid"
INVARIANT PrefixOK
INVARIANT Complete
INVARIANT JustifiedAll
INVARIANT Resync
INVARIANT BacklogBounded
VIEW View
CHECK_DEADLOCK FALSE
