---------------------------- MODULE ClientStateMC ----------------------------
(***************************************************************************)
(* ClientState.tla as a state machine over successive execute() calls of   *)
(* one client, explored exhaustively (both framings, every path), with the *)
(* properties of the state variable as invariants / action properties.     *)
(***************************************************************************)
EXTENDS ClientState

VARIABLES c, rtu, lbl
svars == <<c, rtu, lbl>>
SInit == rtu \in BOOLEAN /\ c = Cfg("idle", IDLE) /\ lbl = -1
SStep == \/ \E p \in Sets(rtu, c) : c' = p[2] /\ lbl' = p[1]
         \/ \E d \in Eps(rtu, c) : c' = d /\ lbl' = -1
NextCall == c.pc \in {"fin", "raised"} /\ c' = Cfg("idle", c.st) /\ lbl' = -1       \* the application calls again
SNext == (SStep \/ NextCall) /\ UNCHANGED rtu
SSpec == SInit /\ [][SNext]_svars

STypeOK == c \in Configs /\ lbl \in States \cup {-1}
LabelIsState == [][lbl' # -1 => c'.st = lbl']_svars                       \* an assignment is what it says
SilentKeeps == [][lbl' = -1 => c'.st = c.st]_svars
RtuSendsFromIdle == [][rtu /\ c'.pc = "tx" /\ c.pc = "idle" => c.st = IDLE]_svars          \* the silent interval / time-out came first
ReturnsComplete == (c.pc = "fin" /\ c.st # COMPLETE) => c.st = SENDING    \* (a broadcast of which nothing could be written)
WaitingOnlyAfterSending == [][c'.st = WAITING /\ c.st # WAITING => c.st = SENDING]_svars
ProcessingOnlyAfterSend == [][c'.st = PROCESSING /\ c.st # PROCESSING => c.st \in {SENDING, WAITING}]_svars
NeverTurnaroundOrError == c.st \notin {3, 5}

=============================================================================
