------------------------------ MODULE Framing ------------------------------
(***************************************************************************)
(* The five transport framings as ADU builders, the notion of a delivery   *)
(* being *justified* by the bytes received, and reference receivers.       *)
(*                                                                         *)
(* Sources: Modbus Messaging on TCP/IP v1.0b (MBAP header), Modbus over    *)
(* Serial Line v1.02 (RTU: address, PDU, CRC low byte first; ASCII: ':',   *)
(* upper-case hex of address, PDU and LRC, CR LF), the jamod "BIN"         *)
(* encoding described in pymodbus' binary framer (an RTU frame between '{' *)
(* and '}', with every '{' or '}' inside doubled), Modbus/TCP Security for  *)
(* the bare PDU over TLS.                                                  *)
(***************************************************************************)
EXTENDS ModbusPDU

LBrace == 123
RBrace == 125
Colon == 58
CR == 13
LF == 10

RtuBody(uid, pdu) == <<uid>> \o pdu
RtuFrame(uid, pdu) == RtuBody(uid, pdu) \o CrcWire(RtuBody(uid, pdu))
Esc(s) == Flatten([i \in 1..Len(s) |-> IF s[i] \in {LBrace, RBrace} THEN <<s[i], s[i]>> ELSE <<s[i]>>])

(* FD: set of named framing deviations; {} is the specification.            *)
(*  BinaryEscapesDataOnly : only the PDU data bytes are doubled and the CRC *)
(*                          is computed over the doubled bytes              *)
FramingDevNames == {"BinaryEscapesDataOnly"}
BuildD(kind, tid, pid, uid, pdu, FD) ==
  CASE kind = "tcp" -> U16(tid) \o U16(pid) \o U16(Len(pdu) + 1) \o <<uid>> \o pdu
    [] kind = "rtu" -> RtuFrame(uid, pdu)
    [] kind = "ascii" -> <<Colon>> \o HexEnc(RtuBody(uid, pdu) \o <<LRC(RtuBody(uid, pdu))>>) \o <<CR, LF>>
    [] kind = "bin" ->
         IF "BinaryEscapesDataOnly" \in FD
         THEN LET body == <<uid, pdu[1]>> \o Esc(Drop(pdu, 1)) IN <<LBrace>> \o body \o CrcWire(body) \o <<RBrace>>
         ELSE <<LBrace>> \o Esc(RtuFrame(uid, pdu)) \o <<RBrace>>
    [] kind = "tls" -> pdu
Build(kind, tid, pid, uid, pdu) == BuildD(kind, tid, pid, uid, pdu, {})

(* does the framing carry ... *)
HasUid(kind) == kind # "tls"
HasTid(kind) == kind = "tcp"

(* ---- justification (C07) ------------------------------------------------ *)
(* A delivery d = [uid, tid, pid, pdu] is justified by the byte string `fed' *)
(* iff some contiguous slice of fed is, by the grammar and integrity check  *)
(* of that framing, a frame carrying exactly d.                              *)
MatchAt(s, i, pat) == i + Len(pat) - 1 <= Len(s) /\ \A k \in 1..Len(pat) : s[i + k - 1] = pat[k]
UpHex(c) == IF c >= 97 /\ c <= 102 THEN c - 32 ELSE c
MatchHexAt(s, i, pat) == i + Len(pat) - 1 <= Len(s) /\ \A k \in 1..Len(pat) : UpHex(s[i + k - 1]) = pat[k]
(* A PDU of a fixed-length data-access function code has exactly that length: an MBAP (or any) frame that hands the decoder  *)
(* a longer or shorter PDU for one of these codes has a length that is not consistent with the PDU it claims to carry.       *)
FixedLenOK(dir, pdu) ==
  IF Len(pdu) = 0 THEN FALSE
  ELSE LET fc == pdu[1] IN
       IF dir = "req" THEN (IF fc \in {1,2,3,4,5,6} THEN Len(pdu) = 5 ELSE IF fc = 22 THEN Len(pdu) = 7 ELSE TRUE)
       ELSE (IF fc \in {5,6,15,16} THEN Len(pdu) = 5 ELSE IF fc = 22 THEN Len(pdu) = 7 ELSE TRUE)

Justified(kind, d, fed) ==
  CASE kind = "tcp" -> LET pat == Build("tcp", d.tid, d.pid, d.uid, d.pdu) IN \E i \in 1..Len(fed) : MatchAt(fed, i, pat)
    [] kind = "rtu" -> LET pat == RtuFrame(d.uid, d.pdu) IN \E i \in 1..Len(fed) : MatchAt(fed, i, pat)
    [] kind = "ascii" ->
         LET body == HexEnc(RtuBody(d.uid, d.pdu) \o <<LRC(RtuBody(d.uid, d.pdu))>>) IN
         \E i \in 1..Len(fed) : fed[i] = Colon /\ MatchHexAt(fed, i + 1, body) /\ MatchAt(fed, i + 1 + Len(body), <<CR, LF>>)
    [] kind = "bin" ->
         LET p1 == Build("bin", 0, 0, d.uid, d.pdu)
             p2 == <<LBrace>> \o RtuFrame(d.uid, d.pdu) \o <<RBrace>>
         IN \E i \in 1..Len(fed) : MatchAt(fed, i, p1) \/ MatchAt(fed, i, p2)
    [] kind = "tls" -> \E i \in 1..Len(fed) : MatchAt(fed, i, d.pdu)

(* ---- RTU frame length from the function code (needed by any stream receiver of RTU) ---- *)
(* 0 = cannot be determined from the bytes available yet *)
RtuLen(dir, b) ==
  IF Len(b) < 2 THEN 0 ELSE
  LET fc == b[2]
      bcAt(p, extra) == IF Len(b) >= p THEN b[p] + extra ELSE 0
  IN
  IF dir = "req" THEN
    CASE fc \in {1,2,3,4,5,6,8} -> 8
      [] fc \in {7,11,12,17} -> 4
      [] fc \in {15,16} -> bcAt(7, 9)
      [] fc \in {20,21} -> bcAt(3, 5)
      [] fc = 22 -> 10
      [] fc = 23 -> bcAt(11, 13)
      [] fc = 24 -> 6
      [] fc = 43 -> 7
      [] OTHER -> 0
  ELSE
    CASE fc >= 128 -> 5
      [] fc \in {1,2,3,4,12,17,20,21,23} -> bcAt(3, 5)
      [] fc \in {5,6,8,11,15,16} -> 8
      [] fc = 7 -> 5
      [] fc = 22 -> 10
      [] fc = 24 -> IF Len(b) >= 4 THEN U16At(b, 3) + 6 ELSE 0
      [] OTHER -> 0

(* ---- frame size bounds used by C11 -------------------------------------- *)
MaxFrame(kind) == CASE kind = "rtu" -> 256 [] kind = "ascii" -> 513 [] kind = "bin" -> 2 + 2 * 256 [] OTHER -> 260
=============================================================================
