----------------------------- MODULE DeviceTrace -----------------------------
(***************************************************************************)
(* Trace validation of the diagnostic state machine: histories recorded    *)
(* from a real server front-end (requests fed as frames, responses read    *)
(* from the transport) interleaved with calls of the hosting application   *)
(* on the real ModbusControlBlock.                                          *)
(*                                                                         *)
(* trace = [id, fe, ev]                                                     *)
(* event = [op |-> "env", what |-> "inc", k, n] | [.. "event", e] |         *)
(*         [.. "diag", b, v (0/1)]                                          *)
(*       | [op |-> "req", pdu, nrsp (response frames written), rsp (PDU of  *)
(*          the first one or <<>>), hdr (1 iff its unit / transaction ids    *)
(*          echo the request's), obs [listen, delim, cnt, log] read back     *)
(*          from the control block after the call]                           *)
(* Clauses: DeviceSilence (a response where none is due or none where one   *)
(* is due, or more than one), DeviceHeader, DeviceResponse (the PDU),        *)
(* DeviceState (the state read back differs from the model's).               *)
(***************************************************************************)
EXTENDS Device, TLC, Json, IOUtils

Traces == JsonDeserialize(IOEnv.TRACE_FILE).traces
VARIABLES tr, i, dev, out, acc, first
vars == <<tr, i, dev, out, acc, first>>
T == Traces[tr]
Init == tr \in 1..Len(Traces) /\ i = 1 /\ dev = InitDev /\ out = "run" /\ acc = {} /\ first = 0

Verdict(status, step, clauses, detail) ==
  PrintT("VERDICT " \o ToJson([id |-> T.id, status |-> status, step |-> step, clauses |-> clauses, detail |-> detail]))

ObsOf(d) == [listen |-> B2N(d.listen), delim |-> d.delim, cnt |-> [k \in 1..NCnt |-> d.cnt[k]], log |-> d.log]

(* A divergence in the data of a response or in the state it leaves (not stated by any listed property) does not end the     *)
(* judgement: it is remembered, the model adopts the state the implementation reports, and the later steps are still judged - *)
(* a missing or duplicated response further on is C09's business and must not hide behind it.                                *)
Adopt(d, o) == [d EXCEPT !.cnt = [k \in 1..NCnt |-> o.cnt[k]], !.listen = (o.listen = 1), !.delim = o.delim, !.log = o.log]
Soft == {"DeviceResponse", "DeviceState"}

Step ==
  /\ out = "run" /\ i <= Len(T.ev)
  /\ LET ev == T.ev[i]
         last == i = Len(T.ev)
         fin(a, fst) == IF last THEN (IF a = {} THEN Verdict("OK", i, {}, [n |-> i])
                                      ELSE Verdict("FAIL", fst, a, [n |-> i, pdu |-> T.ev[fst].pdu])) /\ out' = "done"
                        ELSE out' = "run"
     IN
     CASE ev.op = "env" ->
            /\ dev' = CASE ev.what = "inc" -> IncCounter(dev, ev.k, ev.n)
                        [] ev.what = "event" -> AddEvent(dev, ev.e)
                        [] ev.what = "diag" -> SetDiag(dev, ev.b, ev.v = 1)
            /\ UNCHANGED <<acc, first>>
            /\ fin(acc, first)
       [] ev.op = "req" ->
            IF ~Shape(ev.pdu)
            THEN Verdict("UNJUDGED", i, {}, [pdu |-> ev.pdu]) /\ out' = "done" /\ UNCHANGED <<dev, acc, first>>
            ELSE IF ~InRange(dev)
            THEN (* (only reachable after a divergence) whether a response is due does not depend on the counter values *)
                 LET silent == Deaf(dev, T.fe) \/ (ev.pdu[1] = 8 /\ U16At(ev.pdu, 2) = 4)
                     f == (IF (silent /\ ev.nrsp # 0) \/ (~silent /\ ev.nrsp # 1) THEN {"DeviceSilence"} ELSE {})
                          \cup (IF ~silent /\ ev.nrsp = 1 /\ ev.hdr # 1 THEN {"DeviceHeader"} ELSE {})
                 IN IF f # {}
                    THEN Verdict("FAIL", i, f \cup acc, [pdu |-> ev.pdu, expected |-> <<>>, got |-> ev.rsp, nrsp |-> ev.nrsp,
                                                state |-> ObsOf(dev), observed |-> ev.obs]) /\ out' = "done" /\ UNCHANGED <<dev, acc, first>>
                    ELSE dev' = Adopt(dev, ev.obs) /\ UNCHANGED <<acc, first>> /\ fin(acc, first)
            ELSE LET r == Served(dev, ev.pdu, T.fe)
                     f == (IF (r.rsp = None /\ ev.nrsp # 0) \/ (r.rsp # None /\ ev.nrsp # 1) THEN {"DeviceSilence"} ELSE {})
                          \cup (IF r.rsp # None /\ ev.nrsp = 1 /\ ev.hdr # 1 THEN {"DeviceHeader"} ELSE {})
                          \cup (IF r.rsp # None /\ ev.nrsp = 1 /\ ev.rsp # r.rsp THEN {"DeviceResponse"} ELSE {})
                          \cup (IF ev.obs # ObsOf(r.dev) THEN {"DeviceState"} ELSE {})
                 IN IF f \ Soft # {}
                    THEN Verdict("FAIL", i, f \cup acc, [pdu |-> ev.pdu, expected |-> r.rsp, got |-> ev.rsp, nrsp |-> ev.nrsp,
                                                state |-> ObsOf(r.dev), observed |-> ev.obs]) /\ out' = "done" /\ UNCHANGED <<dev, acc, first>>
                    ELSE /\ dev' = IF f = {} THEN r.dev ELSE Adopt(r.dev, ev.obs)
                         /\ acc' = acc \cup f
                         /\ first' = IF first = 0 /\ f # {} THEN i ELSE first
                         /\ fin(acc \cup f, IF first = 0 /\ f # {} THEN i ELSE first)
  /\ i' = i + 1 /\ UNCHANGED tr
Empty == out = "run" /\ Len(T.ev) = 0 /\ Verdict("OK", 0, {}, [n |-> 0]) /\ out' = "done" /\ UNCHANGED <<tr, i, dev, acc, first>>
Spec == Init /\ [][Step \/ Empty]_vars
=============================================================================
