--------------------------- MODULE DataModelTrace ---------------------------
(***************************************************************************)
(* Trace validation for C04 / C05: histories of request PDUs executed by   *)
(* the real server code against a real datastore, recorded with the        *)
(* response bytes and the set of cells that changed, are checked step by   *)
(* step against DataModel!Exec.  One initial state per recorded trace;     *)
(* every behaviour is the deterministic replay of one trace; a verdict is  *)
(* printed when the trace ends or at the first failing clause.             *)
(*                                                                         *)
(* trace  = [id, cfg |-> [zero, map, blocks], ev |-> <<event, ...>>]         *)
(* event  = [req |-> bytes, rsp |-> bytes, raised |-> "" | exception name,  *)
(*           chg |-> << <<block id, address, new value>>, ... >>, ext |-> 0/1] *)
(***************************************************************************)
EXTENDS DataModel, TLC, Json, IOUtils

TraceData == JsonDeserialize(IOEnv.TRACE_FILE)
Traces == TraceData.traces

PairsToFn(ps) == [a \in {ps[k][1] : k \in 1..Len(ps)} |-> ps[CHOOSE k \in 1..Len(ps) : ps[k][1] = a][2]]
MkBlock(jb) ==
  IF jb.kind = "seq"
  THEN [kind |-> "seq", start |-> jb.start, size |-> jb.size, def |-> jb.def, ov |-> PairsToFn(jb.ov), fail |-> jb.fail = 1]
  ELSE [kind |-> "sparse", keys |-> Seq2Set(jb.keys), def |-> jb.def, ov |-> PairsToFn(jb.ov), fail |-> jb.fail = 1]
MkCtx(jc) == [zero |-> jc.zero = 1, map |-> jc.map, blocks |-> [id \in DOMAIN jc.blocks |-> MkBlock(jc.blocks[id])]]

VARIABLES tr, i, ctx, out
vars == <<tr, i, ctx, out>>

Init == /\ tr \in 1..Len(Traces)
        /\ i = 1
        /\ ctx = MkCtx(Traces[tr].cfg)
        /\ out = "run"

ChangedVals(c1, c2) == {<<cell[1], cell[2], Val(c2.blocks[cell[1]], cell[2])>> : cell \in Changed(c1, c2)}

(* the clauses of C04/C05 evaluated on one recorded step; returns the set of failing clause names *)
Failing(c, ev, r, e) ==
  LET expExc == IsExc(e.rsp)
      obsChg == Seq2Set(ev.chg)
      obsCells == {<<x[1], x[2]>> : x \in obsChg}
  IN  (IF ev.raised # "" THEN {"NoRaise"} ELSE {})
      \cup (IF ev.raised = "" /\ ev.rsp # Encode(e.rsp)
            THEN {IF expExc THEN "ExcCode" ELSE "Response"} ELSE {})
      \cup (IF obsChg # ChangedVals(c, e.ctx)
            THEN {IF expExc THEN "ExcNoChange"
                  ELSE IF ~(obsCells \subseteq Addressed(c, r)) THEN "Frame" ELSE "Store"} ELSE {})
      \cup (IF ev.ext # 0 THEN {"Extent"} ELSE {})

Verdict(status, step, clauses, detail) ==
  PrintT("VERDICT " \o ToJson([id |-> Traces[tr].id, status |-> status, step |-> step,
                               clauses |-> clauses, detail |-> detail]))

Step ==
  /\ out = "run"
  /\ i <= Len(Traces[tr].ev)
  /\ LET ev == Traces[tr].ev[i]
         r == ParseReq(ev.req)
     IN IF ~Judged(r)
        THEN /\ Verdict("UNJUDGED", i, {}, [req |-> ev.req])
             /\ out' = "done" /\ UNCHANGED <<ctx>>
        ELSE LET e == Exec(ctx, r)
                 f == Failing(ctx, ev, r, e)
             IN IF f # {}
                THEN /\ Verdict("FAIL", i, f, [req |-> ev.req, rsp |-> ev.rsp, raised |-> ev.raised,
                                               expected_rsp |-> Encode(e.rsp),
                                               expected_chg |-> ChangedVals(ctx, e.ctx), chg |-> ev.chg,
                                               expexc |-> IF IsExc(e.rsp) THEN 1 ELSE 0])
                     /\ out' = "done" /\ UNCHANGED <<ctx>>
                ELSE /\ ctx' = e.ctx
                     /\ IF i = Len(Traces[tr].ev)
                        THEN Verdict("OK", i, {}, [n |-> i]) /\ out' = "done"
                        ELSE out' = "run"
  /\ i' = i + 1
  /\ UNCHANGED tr

Empty == /\ out = "run" /\ Len(Traces[tr].ev) = 0
         /\ Verdict("OK", 0, {}, [n |-> 0]) /\ out' = "done" /\ UNCHANGED <<tr, i, ctx>>

Next == Step \/ Empty
Spec == Init /\ [][Next]_vars
=============================================================================
