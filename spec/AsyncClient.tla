----------------------------- MODULE AsyncClient -----------------------------
(***************************************************************************)
(* C16: the asynchronous (Twisted) client protocol: outstanding requests   *)
(* are paired with replies by transaction id (dictionary variant) or in    *)
(* order (FIFO variant used on serial lines).                              *)
(*   st = [next (last tid handed out), pending (tid -> deferred),          *)
(*         fifo (sequence of deferreds), connected]                        *)
(*   ADev: OverwritesPending - a tid still in use is handed out again and  *)
(*                             the pending deferred is overwritten         *)
(***************************************************************************)
EXTENDS Naturals, Sequences, FiniteSets
CONSTANTS TidSpace, ADev

NextFree(st) ==    \* the next transaction id, skipping ids that are still outstanding
  LET cand(k) == (st.next + k) % TidSpace IN
  IF "OverwritesPending" \in ADev THEN cand(1)
  ELSE cand(CHOOSE k \in 1..TidSpace : cand(k) \notin DOMAIN st.pending /\ \A j \in 1..(k-1) : cand(j) \in DOMAIN st.pending)
CanExecute(st) == st.connected /\ ("OverwritesPending" \in ADev \/ Cardinality(DOMAIN st.pending) < TidSpace)
Execute(st, d) ==
  LET t == NextFree(st) IN
  [st EXCEPT !.next = t, !.pending = [x \in (DOMAIN st.pending) \cup {t} |-> IF x = t THEN d ELSE st.pending[x]]]
Reply(st, t) == IF t \in DOMAIN st.pending
                THEN [st |-> [st EXCEPT !.pending = [x \in (DOMAIN st.pending) \ {t} |-> st.pending[x]]], fired |-> {st.pending[t]}]
                ELSE [st |-> st, fired |-> {}]
Lost(st) == [st |-> [st EXCEPT !.pending = <<>>, !.connected = FALSE], fired |-> {st.pending[t] : t \in DOMAIN st.pending}]
=============================================================================
