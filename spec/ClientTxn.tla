------------------------------ MODULE ClientTxn ------------------------------
(***************************************************************************)
(* One synchronous client transaction as the properties C08 / C13 see it.  *)
(*                                                                         *)
(* The environment is a *script*: one outcome per transmission attempt.    *)
(*   "own"      a well-formed normal reply to this request                 *)
(*   "ownExc"   a well-formed exception reply to this request              *)
(*   "staleOwn" a reply of an earlier transaction (other tid / unit /      *)
(*              function) followed, in the same attempt, by the own reply  *)
(*   "foreign"  only a well-formed reply that is not ours                  *)
(*   "nothing"  no byte arrives before the timeout                         *)
(*   "late"     nothing arrives before the timeout; the own reply arrives  *)
(*              afterwards (it is then a stale frame for whatever follows) *)
(*   "short"    a strict prefix of the own reply, then nothing             *)
(*   "garbage"  bytes that are no frame                                    *)
(*   "oserror"  the transport raises while sending or receiving            *)
(*   "close"    the peer closes the connection                             *)
(* cfg = [retries, roe (retry on empty), roi (retry on invalid)]           *)
(*                                                                         *)
(* Run(cfg, script) is the reference behaviour: how many times the request *)
(* is transmitted and what the call returns ("reply" = the own reply,      *)
(* "error" = an error object).  CDev holds named deviations.               *)
(***************************************************************************)
EXTENDS Naturals, Sequences, FiniteSets

Outcomes == {"own", "ownExc", "staleOwn", "foreign", "nothing", "late", "short", "garbage", "oserror", "close"}
Good(o) == o \in {"own", "ownExc", "staleOwn"}
Empty(o) == o \in {"nothing", "late"}
Invalid(o) == o \in {"foreign", "short", "garbage"}
Broken(o) == o \in {"oserror", "close"}

CONSTANT CDev
(*  ForeignAccepted       : a foreign reply is returned as the answer (tid / unit / fc not compared)     *)
(*  StaleWins             : of a stale frame followed by the own reply the stale one is returned          *)
(*  RetriesZeroIsOne      : retries = 0 is treated as 1                                                   *)
(*  RetryOnEmptyNeedsRoi  : retry-on-empty has no effect unless retry-on-invalid is also set              *)
(*  RaisesOnGarbage       : garbage makes the call raise instead of returning an error object             *)

Budget(cfg) == 1 + (IF "RetriesZeroIsOne" \in CDev /\ cfg.retries = 0 THEN 1 ELSE cfg.retries)

(* outcome of attempt k (1-based) given the script; attempts beyond the script see "nothing" *)
At(script, k) == IF k <= Len(script) THEN script[k] ELSE "nothing"

RECURSIVE Run(_, _, _)
Run(cfg, script, k) ==      \* returns [sent, result]
  LET o == At(script, k)
      more == k < Budget(cfg)
      retryEmpty == IF "RetryOnEmptyNeedsRoi" \in CDev THEN cfg.roe /\ cfg.roi ELSE cfg.roe
  IN
  CASE o \in {"own", "ownExc"} -> [sent |-> k, result |-> "reply"]
    [] o = "staleOwn" -> [sent |-> k, result |-> IF "StaleWins" \in CDev THEN "foreignReply" ELSE "reply"]
    [] o = "foreign" ->
         IF "ForeignAccepted" \in CDev THEN [sent |-> k, result |-> "foreignReply"]
         ELSE IF cfg.roi /\ more THEN Run(cfg, script, k + 1) ELSE [sent |-> k, result |-> "error"]
    [] o \in {"short", "garbage"} ->
         IF o = "garbage" /\ "RaisesOnGarbage" \in CDev THEN [sent |-> k, result |-> "raised"]
         ELSE IF cfg.roi /\ more THEN Run(cfg, script, k + 1) ELSE [sent |-> k, result |-> "error"]
    [] o \in {"nothing", "late"} ->
         IF retryEmpty /\ more THEN Run(cfg, script, k + 1) ELSE [sent |-> k, result |-> "error"]
    [] Broken(o) -> [sent |-> k, result |-> "error"]

(* ---- what C08 / C13 demand of an observed transaction -------------------- *)
(* obs = [sent (number of transmissions), result \in {"reply","foreignReply","error","raised","none"}] *)
SendBound(cfg, obs) == obs.sent <= 1 + cfg.retries
NoRaise(obs) == obs.result \in {"reply", "error", "foreignReply"}
OwnOnly(obs) == obs.result # "foreignReply"
(* a good reply as the first outcome must be returned; with the retry flags also after k empty / invalid attempts within budget *)
MustReply(cfg, script) ==
  \E k \in 1..(1 + cfg.retries) :
     /\ k <= Len(script) /\ Good(script[k])
     /\ \A j \in 1..(k - 1) : (Empty(script[j]) /\ cfg.roe) \/ (script[j] = "foreign" /\ cfg.roi)
     \* (the statement promises a retry after *empty* resp. *foreign* replies; whether a truncated or garbled
     \*  reply is retried is left open - only the bound, no-raise and recovery clauses apply to those)
Honoured(cfg, script, obs) == MustReply(cfg, script) => obs.result = "reply"
(* no good outcome inside what was transmitted: the call cannot have a reply *)
NoInvention(cfg, script, obs) == (obs.result = "reply") => \E k \in 1..obs.sent : k <= Len(script) /\ Good(script[k])
=============================================================================
