------------------------------ MODULE ThreadsGen ------------------------------
(***************************************************************************)
(* Behaviour generation for C15: every complete behaviour of ThreadsMC,    *)
(* exported as the order in which the threads win the lock (one entry per  *)
(* transaction).  The harness drives real threads along each order, with   *)
(* and without additional pre-emptions of the lock holder.                 *)
(***************************************************************************)
EXTENDS ThreadsMC, Json
VARIABLE order
gvars == <<pc, lock, rx, got, cnt, active, order>>
GInit == Init /\ order = <<>>
GNext == \E t \in Th : \/ Acquire(t) /\ order' = Append(order, t)
                       \/ (Send(t) \/ Recv(t) \/ Release(t)) /\ UNCHANGED order
GSpec == GInit /\ [][GNext]_gvars
Export == Done => PrintT("ORDER " \o ToJson(order))
=============================================================================
