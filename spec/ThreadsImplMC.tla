---------------------------- MODULE ThreadsImplMC ----------------------------
(***************************************************************************)
(* C15, implementation-shaped: the steps one call of a synchronous client  *)
(* really takes, one action per critical section of the code               *)
(*   BaseModbusClient.execute: acquire the transaction lock, connect if    *)
(*   there is no connection (check, then open), ModbusTransactionManager   *)
(*   .execute: send, wait for the reply; when none comes the attempt       *)
(*   fails, the connection is closed and - with retry_on_empty - the       *)
(*   request is sent again after a back-off sleep (connect check again);   *)
(*   finally release.                                                      *)
(* The peer answers every request it receives on the connection it was     *)
(* received on; a reply in flight on a connection that has been replaced   *)
(* never arrives.  The environment may drop up to Drops transmissions.     *)
(*                                                                         *)
(* TDev names the ways in which implementations have been seen (or seeded) *)
(* to get this wrong; TLC must reject each of them:                        *)
(*   ConnectOutsideLock         connect() before the lock is taken (the    *)
(*                              defect repaired in the tree)               *)
(*   LockReleasedDuringBackoff  the lock is given up for the back-off sleep *)
(*   LockWaitTimesOut           a caller that has queued "too long" goes on *)
(*                              without the lock                           *)
(*   CloseRecreatesLock         closing the connection after a failed      *)
(*                              attempt replaces the lock object: the      *)
(*                              holder keeps the old one, the others see a  *)
(*                              free one                                    *)
(***************************************************************************)
EXTENDS Naturals, Sequences, FiniteSets, TLC

CONSTANTS NT, K, Drops, TDev
VARIABLES pc, lock, conn, rx, got, cnt, active, tries, drops, lost
vars == <<pc, lock, conn, rx, got, cnt, active, tries, drops, lost>>
Th == 1..NT
Has(d) == d \in TDev

Init == /\ pc = [t \in Th |-> "idle"] /\ lock = 0 /\ conn = 0 /\ rx = <<>>
        /\ got = [t \in Th |-> <<>>] /\ cnt = [t \in Th |-> 0] /\ active = {}
        /\ tries = [t \in Th |-> 1] /\ drops = Drops /\ lost = {}

(* conn: 0 = no connection, n > 0 = the n-th connection of this client (an epoch) *)
Go(t, to) == pc' = [pc EXCEPT ![t] = to]

Acquire(t) ==
  /\ pc[t] = (IF Has("ConnectOutsideLock") THEN "acq" ELSE "idle") /\ (pc[t] = "idle" => cnt[t] < K)
  /\ \/ lock = 0 /\ lock' = t
     \/ lock # 0 /\ lock # t /\ Has("LockWaitTimesOut") /\ lock' = lock          \* gives up waiting, carries on unlocked
  /\ Go(t, IF Has("ConnectOutsideLock") THEN "send" ELSE "cchk")
  /\ UNCHANGED <<conn, rx, got, cnt, active, tries, drops, lost>>
Start(t) ==          \* (ConnectOutsideLock only) the call begins with the connection check
  /\ Has("ConnectOutsideLock") /\ pc[t] = "idle" /\ cnt[t] < K
  /\ Go(t, "cchk") /\ UNCHANGED <<lock, conn, rx, got, cnt, active, tries, drops, lost>>
Check(t) ==
  /\ pc[t] = "cchk"
  /\ Go(t, IF conn = 0 THEN "copen" ELSE (IF Has("ConnectOutsideLock") /\ tries[t] = 1 /\ t \notin active THEN "acq" ELSE "send"))
  /\ UNCHANGED <<lock, conn, rx, got, cnt, active, tries, drops, lost>>
Open(t) ==
  /\ pc[t] = "copen"
  /\ conn' = (CHOOSE n \in 1..(2 * NT * K + 2) : \A m \in {conn} \cup {rx[i].ep : i \in 1..Len(rx)} : n > m)   \* a fresh connection
  /\ Go(t, IF Has("ConnectOutsideLock") /\ lock # t THEN "acq" ELSE "send")
  /\ UNCHANGED <<lock, rx, got, cnt, active, tries, drops, lost>>
Send(t) ==
  /\ pc[t] = "send" /\ conn # 0
  /\ active' = active \cup {t}
  /\ \/ rx' = Append(rx, [to |-> t, ep |-> conn]) /\ UNCHANGED <<drops, lost>>
     \/ drops > 0 /\ drops' = drops - 1 /\ lost' = lost \cup {t} /\ UNCHANGED rx        \* this transmission is never answered
  /\ Go(t, "recv") /\ UNCHANGED <<lock, conn, got, cnt, tries>>
(* the reply at the head of the line arrives if it travels on the current connection, otherwise it is gone *)
Vanish == /\ rx # <<>> /\ Head(rx).ep # conn /\ rx' = Tail(rx) /\ lost' = lost \cup {Head(rx).to}
          /\ UNCHANGED <<pc, lock, conn, got, cnt, active, tries, drops>>
Recv(t) ==
  /\ pc[t] = "recv" /\ rx # <<>> /\ Head(rx).ep = conn
  /\ got' = [got EXCEPT ![t] = Append(@, Head(rx).to)] /\ rx' = Tail(rx)
  /\ active' = active \ {t}
  /\ Go(t, "release") /\ UNCHANGED <<lock, conn, cnt, tries, drops, lost>>
(* no reply comes for t (its transmission was dropped): the read returns empty; with retry_on_empty the request is sent again on  *)
(* the same connection after the back-off sleep.  The transaction is still in progress: it owns the line until its last receive. *)
TimeOut(t) ==
  /\ pc[t] = "recv" /\ t \in lost /\ ~\E i \in 1..Len(rx) : rx[i].to = t /\ rx[i].ep = conn
  /\ lost' = lost \ {t}
  /\ IF tries[t] > 0
     THEN /\ tries' = [tries EXCEPT ![t] = @ - 1]
          /\ lock' = IF Has("LockReleasedDuringBackoff") /\ lock = t THEN 0 ELSE lock
          /\ Go(t, IF Has("LockReleasedDuringBackoff") THEN "reacq" ELSE "cchk")
          /\ UNCHANGED <<got, active>>
     ELSE /\ got' = [got EXCEPT ![t] = Append(@, 0)] /\ active' = active \ {t}      \* an error object is returned
          /\ Go(t, "release") /\ UNCHANGED <<tries, lock>>
  /\ UNCHANGED <<conn, rx, cnt, drops>>
(* the transport fails under t's attempt (OSError): the client closes the connection; a retry reconnects (still inside the call) *)
Fail(t) ==
  /\ pc[t] = "recv" /\ drops > 0 /\ tries[t] > 0 /\ conn # 0
  /\ drops' = drops - 1
  /\ conn' = 0
  /\ lock' = IF Has("CloseRecreatesLock") THEN 0 ELSE lock
  /\ tries' = [tries EXCEPT ![t] = @ - 1]
  /\ Go(t, "cchk")
  /\ UNCHANGED <<rx, got, cnt, active, lost>>
Reacquire(t) == /\ pc[t] = "reacq" /\ lock = 0 /\ lock' = t /\ Go(t, "cchk")
                /\ UNCHANGED <<conn, rx, got, cnt, active, tries, drops, lost>>
Release(t) ==
  /\ pc[t] = "release"
  /\ lock' = IF lock = t THEN 0 ELSE lock
  /\ cnt' = [cnt EXCEPT ![t] = @ + 1] /\ tries' = [tries EXCEPT ![t] = 1]
  /\ Go(t, "idle") /\ UNCHANGED <<conn, rx, got, active, drops, lost>>

Done == \A t \in Th : cnt[t] = K /\ pc[t] = "idle"
Next == \/ \E t \in Th : Acquire(t) \/ Start(t) \/ Check(t) \/ Open(t) \/ Send(t) \/ Recv(t) \/ TimeOut(t) \/ Fail(t) \/ Reacquire(t) \/ Release(t)
        \/ Vanish
        \/ (Done /\ UNCHANGED vars)
Spec == Init /\ [][Next]_vars /\ WF_vars(Next)

(* the statement of C15 *)
Mutex == Cardinality(active) <= 1
OwnReply == \A t \in Th : \A k \in 1..Len(got[t]) : got[t][k] = t         \* (0 = an error object; with Drops <= retries none occurs)
NoLossNoDup == Done => \A t \in Th : Len(got[t]) = K
Completes == <>Done
=============================================================================
