---------------------------- MODULE ThreadsImplMC ----------------------------
(* Exhaustive exploration of ThreadsImpl: every interleaving of the caller threads' steps and of the environment's choices. *)
EXTENDS ThreadsImpl, TLC
VARIABLE st
Init == st = InitSt
Next == st' \in Steps(st) \/ (DoneSt(st) /\ UNCHANGED st)
Spec == Init /\ [][Next]_st /\ WF_st(Next)
Mutex == MutexSt(st)
OwnReply == OwnReplySt(st)
NoLossNoDup == NoLossSt(st)
Completes == <>DoneSt(st)
=============================================================================
