SPECIFICATION GSpec
CONSTANTS
  TidSpace = 4
  MaxD = 4
  ADev = {}
  GenDepth = 6
INVARIANT FiresOnce
INVARIANT Match
INVARIANT Distinct
INVARIANT Export
CHECK_DEADLOCK FALSE
