-------------------------- MODULE DataModelMC_base --------------------------
EXTENDS DataModelMC
Blk3(kind, start, keys, def) ==
  \* ov is total over the cells so that equal contents are equal states
  IF kind = "seq" THEN [kind |-> "seq", start |-> start, size |-> 3, def |-> def,
                        ov |-> [a \in start..(start+2) |-> def], fail |-> FALSE]
  ELSE [kind |-> "sparse", keys |-> keys, def |-> def, ov |-> [a \in keys |-> def], fail |-> FALSE]
Sep(zero, b) == [zero |-> zero, map |-> [c |-> "bc", d |-> "bd", h |-> "bh", i |-> "bi"],
                 blocks |-> [bc |-> b, bd |-> b, bh |-> b, bi |-> b]]
Shared(zero, b) == [zero |-> zero, map |-> [c |-> "bb", d |-> "bb", h |-> "br", i |-> "br"],
                    blocks |-> [bb |-> b, br |-> b]]
FailH(zero, b) == [Sep(zero, b) EXCEPT !.blocks.bh.fail = TRUE, !.blocks.bc.fail = TRUE]
MCLayouts == { Sep(TRUE, Blk3("seq", 0, {}, 0)),
               Sep(FALSE, Blk3("seq", 1, {}, 0)),
               Sep(FALSE, Blk3("seq", 2, {}, 1)),
               Sep(TRUE, Blk3("seq", 3, {}, 0)),
               Sep(TRUE, Blk3("sparse", 0, {1, 2, 4}, 0)),
               Sep(FALSE, Blk3("sparse", 0, {2, 3, 5}, 1)),
               Shared(TRUE, Blk3("seq", 1, {}, 0)),
               FailH(TRUE, Blk3("seq", 0, {}, 0)) }
QuickLayouts == { Sep(FALSE, Blk3("seq", 1, {}, 0)),
                  Sep(TRUE, Blk3("sparse", 0, {1, 2, 4}, 0)),
                  Shared(TRUE, Blk3("seq", 1, {}, 0)),
                  FailH(TRUE, Blk3("seq", 0, {}, 0)) }
=============================================================================
