SPECIFICATION Spec
CONSTANTS
  Dev = {}
  MaxReadBits = 2000
  MaxReadRegs = 125
  MaxWriteBits = 1968
  MaxWriteRegs = 123
  MaxRWRead = 125
  MaxRWWrite = 121
CHECK_DEADLOCK FALSE
