----------------------------- MODULE ClientState -----------------------------
(***************************************************************************)
(* The synchronous client's transaction state (`client.state`,             *)
(* ModbusTransactionState) during one execute() call, as the code of       *)
(* transaction.py / client/sync.py / rtu_framer.py drives it.  Growth of   *)
(* the specification beyond the listed properties (DESIGN 9.10): the       *)
(* serial-line master state diagram of the Modbus documents, in the shape  *)
(* pymodbus gives it.                                                      *)
(*                                                                         *)
(*   st  the value of client.state: 0 IDLE, 1 SENDING, 2 WAITING_FOR_REPLY,*)
(*       4 PROCESSING_REPLY, 6 TRANSACTION_COMPLETE (3 and 5 are never     *)
(*       entered by this code)                                             *)
(*   pc  where the call is: "idle" before a transmission, "tx" inside      *)
(*       client.send(), "rx" reading, "att" the attempt is over, "fin"     *)
(*       execute() has returned, "raised" an exception left execute()      *)
(*                                                                         *)
(* One action per assignment to client.state (label = the value assigned), *)
(* silent actions for the code paths that move on without assigning.       *)
(* Named deviations from the master state diagram:                         *)
(*  * RetryFromIdle     a retry resets the state to IDLE and transmits at  *)
(*                      once (no turn-around or silent interval);          *)
(*  * RtuWaitsOutTimeout an RTU sender that finds the state neither IDLE   *)
(*                      nor COMPLETE polls until the time-out has passed   *)
(*                      and then forces IDLE;                              *)
(*  * OthersSendFromAny the non-RTU framings transmit from any state       *)
(*                      (COMPLETE -> SENDING without passing IDLE).        *)
(***************************************************************************)
EXTENDS Integers, Sequences, FiniteSets

CONSTANT SDev          \* deviations of a hypothetical implementation (TLC must reject each), and the environment assumption
                       \* "EnvFullWrites" (the scripted transports of the harness never report a write of 0 bytes)
IDLE == 0  SENDING == 1  WAITING == 2  PROCESSING == 4  COMPLETE == 6
States == {IDLE, SENDING, WAITING, PROCESSING, COMPLETE}
Pcs == {"idle", "tx", "rx", "att", "fin", "raised"}
Cfg(p, s) == [pc |-> p, st |-> s]
Configs == {Cfg(p, s) : p \in Pcs, s \in States}

(* steps that assign client.state: the set of << value, next configuration >> *)
Sets(rtu, c) ==
  (IF c.pc = "idle" /\ rtu /\ c.st # IDLE /\ "NoSettle" \notin SDev
     THEN {<<IDLE, Cfg("idle", IDLE)>>} ELSE {})                       \* silent interval after COMPLETE / RtuWaitsOutTimeout
  \cup (IF c.pc = "idle" /\ (~rtu \/ c.st = IDLE \/ "NoSettle" \in SDev)
          THEN {<<SENDING, Cfg("tx", SENDING)>>} ELSE {})              \* client.send()
  \cup (IF c.pc = "tx" THEN {<<WAITING, Cfg("rx", WAITING)>>,          \* bytes written
                             <<COMPLETE, Cfg("fin", COMPLETE)>>}       \* broadcast: nothing is read
        ELSE {})
  \cup (IF c.pc = "rx" /\ c.st # PROCESSING
          THEN {<<PROCESSING, Cfg("rx", PROCESSING)>>,                 \* the local echo has been read; the reply is read next
                <<PROCESSING, Cfg("att", PROCESSING)>>}                \* the reply (or nothing) has been read
        ELSE {})
  \cup (IF c.pc = "att" THEN {<<IDLE, Cfg("idle", IDLE)>>,             \* RetryFromIdle
                              <<COMPLETE, Cfg("fin", COMPLETE)>>}      \* result handed back
        ELSE {})
  \cup (IF c.pc \in {"idle", "tx", "rx"} THEN {<<COMPLETE, Cfg("fin", COMPLETE)>>} ELSE {})   \* `except ModbusIOException' of execute()

(* steps that assign nothing *)
Eps(rtu, c) ==
  (IF c.pc = "tx" THEN {Cfg("att", c.st),                              \* the transport raised while sending (caught)
                        Cfg("raised", c.st)}                           \* not connected: ConnectionException leaves execute()
                       \cup (IF "EnvFullWrites" \in SDev THEN {}      \* (environment: a write that returns writes everything)
                             ELSE {Cfg("rx", c.st),                    \* nothing written (size 0): no WAITING
                                   Cfg("fin", c.st)})                  \* broadcast, nothing written
   ELSE {})
  \cup (IF c.pc = "rx" THEN {Cfg("att", c.st)} ELSE {})                \* the transport raised / already PROCESSING / wrong echo
  \cup (IF c.pc = "att" THEN {Cfg("raised", c.st)} ELSE {})            \* decoding the reply raised something else

(* ---- acceptance of an observed sequence of assignments ------------------ *)
RECURSIVE Closure(_, _)
Closure(r, S) == LET T == S \cup UNION {Eps(r, x) : x \in S} IN IF T = S THEN S ELSE Closure(r, T)
After(r, S, v) == {p[2] : p \in {q \in UNION {Sets(r, x) : x \in Closure(r, S)} : q[1] = v}}
RECURSIVE Walk(_, _, _, _)
Walk(r, S, seq, k) == IF k > Len(seq) \/ S = {} THEN <<S, k>> ELSE Walk(r, After(r, S, seq[k]), seq, k + 1)
(* the assignments `seq' observed during one call that started in state s0 and ended as `how' ("returned" / "raised") *)
Accepts(r, s0, seq, how) ==
  LET w == Walk(r, {Cfg("idle", s0)}, seq, 1)
      endS == Closure(r, w[1])
  IN /\ w[2] > Len(seq) /\ w[1] # {}
     /\ (how = "returned" => \E x \in endS : x.pc = "fin")       \* (an exception may leave the call anywhere: only the walk is judged)
StuckAt(r, s0, seq) == Walk(r, {Cfg("idle", s0)}, seq, 1)[2] - 1          \* index of the assignment no step explains (Len+1: the ending)
=============================================================================
