------------------------------ MODULE DeviceMC ------------------------------
(***************************************************************************)
(* Exhaustive exploration of the diagnostic state machine (Device.tla) on  *)
(* a small instance: counters 0..MaxCnt, two event bytes, a log capacity   *)
(* of LogCap, diagnostic bits 0 and 9, every judged request.  `last' is    *)
(* the observation of the most recent step (hidden from the state space by *)
(* VIEW); the properties are action properties over it.                    *)
(***************************************************************************)
EXTENDS Device, TLC

CONSTANT MaxCnt
VARIABLES dev, last, fe
vars == <<dev, last, fe>>
View == <<dev, fe>>

Subs == {0, 1, 2, 3, 4} \cup (10..20)
Reqs == {<<7>>, <<11>>, <<12>>}
        \cup {<<8>> \o U16(s) \o <<0, 0>> : s \in Subs}
        \cup {<<8, 0, 0, 18, 52, 86, 120>>, <<8, 0, 1, 255, 0>>, <<8, 0, 3, 65, 0>>}

Init == dev = InitDev /\ last = [k |-> "init"] /\ fe \in {"syncTcp", "twTcp"}

EnvInc(k) == /\ dev.cnt[k] < MaxCnt
             /\ dev' = IncCounter(dev, k, 1) /\ last' = [k |-> "env"] /\ UNCHANGED fe
EnvEvent(e) == /\ dev.cnt[EventCnt] < MaxCnt
               /\ dev' = AddEvent(dev, e) /\ last' = [k |-> "env"] /\ UNCHANGED fe
EnvDiag(b) == dev' = SetDiag(dev, b, ~dev.diag[b]) /\ last' = [k |-> "env"] /\ UNCHANGED fe
Request(p) == /\ Handled(dev, p) /\ dev.cnt[1] < MaxCnt
              /\ LET r == Served(dev, p, fe) IN dev' = r.dev /\ last' = [k |-> "req", pdu |-> p, rsp |-> r.rsp]
              /\ UNCHANGED fe

Next == \/ \E k \in {1, 6, 8} : EnvInc(k)
        \/ \E e \in {4, 72} : EnvEvent(e)
        \/ \E b \in {0, 9} : EnvDiag(b)
        \/ \E p \in Reqs : Request(p)
Spec == Init /\ [][Next]_vars

Sub(p) == IF p[1] = 8 THEN U16At(p, 2) ELSE 99
IsReq == last'.k = "req"
ReadOnlySubs == {0, 1, 2} \cup (11..19)

TypeOK == /\ \A k \in 1..NCnt : dev.cnt[k] \in 0..MaxCnt
          /\ dev.delim \in Byte /\ IsBytes(dev.log) /\ dev.listen \in BOOLEAN
LogBounded == Len(dev.log) <= LogCap
(* the event counter counts every event ever logged since the last clear, the log keeps the newest LogCap of them *)
LogVsCounter == Len(dev.log) = (IF dev.cnt[EventCnt] < LogCap THEN dev.cnt[EventCnt] ELSE LogCap)

Sent(d) == IF Counting(fe) /\ ~d.listen THEN [d EXCEPT !.cnt[1] = (@ + 1) % 65536] ELSE d      \* the only trace a served read leaves
ReadsChangeNothing == [][IsReq /\ (last'.pdu[1] \in {7, 11, 12} \/ Sub(last'.pdu) \in ReadOnlySubs) => dev' = Sent(dev)]_vars
ClearClears == [][IsReq /\ Sub(last'.pdu) = 10 /\ ~Deaf(dev, fe) =>
                    /\ \A k \in 2..NCnt : dev'.cnt[k] = 0
                    /\ dev'.cnt[1] = (IF Counting(fe) THEN 1 ELSE 0)     \* (the response to the clear request is itself counted)
                    /\ \A b \in 0..15 : ~dev'.diag[b]
                    /\ dev'.log = <<>>
                    /\ dev'.listen = dev.listen /\ dev'.delim = dev.delim]_vars
ListenSilent == [][IsReq /\ Sub(last'.pdu) = 4 => last'.rsp = None /\ dev'.listen /\ dev'.cnt = dev.cnt]_vars
StatusTruth == [][IsReq /\ last'.pdu = <<7>> /\ ~Deaf(dev, fe) =>
                    /\ Len(last'.rsp) = 2 /\ last'.rsp[1] = 7
                    /\ \A k \in 1..8 : ((last'.rsp[2] \div Pow2(k - 1)) % 2 = 1) <=> (dev.cnt[k] # 0)]_vars
OthersAnswer == [][IsReq /\ Sub(last'.pdu) # 4 /\ ~Deaf(dev, fe) => last'.rsp # None /\ last'.rsp[1] \in {last'.pdu[1], last'.pdu[1] + 128}]_vars
CounterTruth == [][IsReq /\ Sub(last'.pdu) \in 11..19 /\ ~Deaf(dev, fe) =>
                     last'.rsp = <<8>> \o U16(Sub(last'.pdu)) \o U16(dev.cnt[CntOf(Sub(last'.pdu))])]_vars
EchoSubs == [][IsReq /\ Sub(last'.pdu) \in {0, 1, 3, 10, 20} /\ ~Deaf(dev, fe) => last'.rsp = last'.pdu]_vars
EventLogTruth == [][IsReq /\ last'.pdu = <<12>> /\ ~Deaf(dev, fe) =>
                      /\ last'.rsp[2] = Len(last'.rsp) - 2
                      /\ U16At(last'.rsp, 5) = dev.cnt[EventCnt] /\ U16At(last'.rsp, 7) = dev.cnt[1]
                      /\ Drop(last'.rsp, 8) = dev.log]_vars
EventCountMonotone == [][dev'.cnt[EventCnt] >= dev.cnt[EventCnt] \/ (IsReq /\ Sub(last'.pdu) = 10)]_vars
DeafForever == [][Deaf(dev, fe) /\ IsReq => last'.rsp = None /\ dev' = dev]_vars
ListenSticky == [][dev.listen => dev'.listen]_vars       \* (RestartKeepsState: nothing leaves listen-only mode)
=============================================================================
