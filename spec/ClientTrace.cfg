SPECIFICATION Spec
CONSTANT CDev = {}
CHECK_DEADLOCK FALSE
