---------------------------- MODULE AsyncClientGen ----------------------------
(***************************************************************************)
(* Behaviour generation for C16: every history of AsyncClientMC up to      *)
(* GenDepth steps, written relative to the requests (deferreds) so that    *)
(* the harness can replay it on the real client whatever transaction ids   *)
(* the implementation hands out:                                           *)
(*   exec | reply d (to an outstanding request) | dup d (a second reply to *)
(*   a request already answered or failed) | unsol | lost                  *)
(***************************************************************************)
EXTENDS AsyncClientMC, Json
CONSTANT GenDepth
VARIABLE hist
gvars == <<st, issued, tidOf, fired, wire, hist>>

GInit == Init /\ hist = <<>>
Latest(t) == IF \E d \in issued : tidOf[d] = t THEN CHOOSE d \in issued : tidOf[d] = t /\ \A e \in issued : tidOf[e] = t => e <= d ELSE 0
GNext == /\ Len(hist) < GenDepth
         /\ \/ \E d \in D : DoExecute(d) /\ hist' = Append(hist, [op |-> "exec", d |-> d])
            \/ \E t \in 0..(TidSpace - 1) : DoReply(t) /\
                 hist' = Append(hist, IF t \in DOMAIN st.pending THEN [op |-> "reply", d |-> st.pending[t]]
                                      ELSE IF Latest(t) # 0 THEN [op |-> "dup", d |-> Latest(t)]
                                      ELSE [op |-> "unsol", d |-> 0])
            \/ DoLost /\ hist' = Append(hist, [op |-> "lost", d |-> 0])
GSpec == GInit /\ [][GNext]_gvars
Export == Len(hist) = GenDepth => PrintT("HIST " \o ToJson(hist))
=============================================================================
