SPECIFICATION Spec
CONSTANTS
  Dev = {}
  Identities <- BaseIdentities
  ExtraStarts = {4, 5, 7, 127, 130, 254}
INVARIANT SizeBound
INVARIANT RspWellFormed
INVARIANT PageBound
INVARIANT DeliversPrefix
INVARIANT ExactlyOnce
INVARIANT Complete
INVARIANT NoException
INVARIANT MoreFlag
INVARIANT Individual
PROPERTY ChainTerminates
CHECK_DEADLOCK FALSE
