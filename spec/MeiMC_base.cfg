SPECIFICATION Spec
CONSTANTS
  Dev = {}
  Families <- BaseFamilies
  ExtraStarts = {5, 7, 130}
INVARIANT SizeBound
INVARIANT RspWellFormed
INVARIANT PageBound
INVARIANT DeliversPrefix
INVARIANT ExactlyOnce
INVARIANT Complete
INVARIANT NoException
INVARIANT MoreFlag
INVARIANT Individual
CHECK_DEADLOCK FALSE
