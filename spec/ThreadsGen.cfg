SPECIFICATION GSpec
CONSTANTS
  NT = 3
  K = 2
  TDev = {}
INVARIANT Mutex
INVARIANT OwnReply
INVARIANT Export
CHECK_DEADLOCK FALSE
