----------------------------- MODULE ClientTrace -----------------------------
(***************************************************************************)
(* Trace validation for the synchronous clients (C08, C13, and the client  *)
(* half of C14).                                                           *)
(*                                                                         *)
(* trace = [id, kind (framing), client, cfg [retries, roe, roi], txns]     *)
(* txn   = [uid, fc, pdu (request PDU), script << outcome name >>,         *)
(*          fed << << frame >> >>   per attempt, the frames the scripted    *)
(*                                  transport delivered: [tid, uid, pdu]   *)
(*          writes << bytes >>      every write to the transport           *)
(*          reads  << [asked, got] >> every read of the transport          *)
(*          result [kind \in reply|error|raised|none, pdu, exc],           *)
(*          connfail 0/1 (the transport refused to connect),                *)
(*          exact 0/1 (judge the read sizes: single complete reply)]        *)
(***************************************************************************)
EXTENDS ClientTxn, Framing, TLC, Json, IOUtils

Traces == JsonDeserialize(IOEnv.TRACE_FILE).traces
VARIABLES tr, i, out
vars == <<tr, i, out>>
T == Traces[tr]
Cfg == [retries |-> T.cfg.retries, roe |-> T.cfg.roe = 1, roi |-> T.cfg.roi = 1]
Init == tr \in 1..Len(Traces) /\ i = 1 /\ out = "run"

ReqTid(x) == IF T.kind = "tcp" /\ Len(x.writes) >= 1 /\ Len(x.writes[1]) >= 2 THEN U16At(x.writes[1], 1) ELSE 0
IsOwn(x, f) == /\ f.uid = x.uid \/ T.kind = "tls"
               /\ (T.kind = "tcp" => f.tid = ReqTid(x))
               /\ Len(f.pdu) >= 1 /\ f.pdu[1] \in {x.fc, (x.fc + 128) % 256}
FedUpTo(x, n) == UNION {Seq2Set(x.fed[k]) : k \in 1..(IF n < Len(x.fed) THEN n ELSE Len(x.fed))}

Classify(x) ==
  IF x.result.kind # "reply" THEN x.result.kind
  ELSE IF \E f \in FedUpTo(x, Len(x.writes)) : f.pdu = x.result.pdu /\ IsOwn(x, f) THEN "reply"
  ELSE "foreignReply"

(* why a returned reply is not the own one: which identifiers of the frame it was decoded from differ from the request *)
Mismatch(x) ==
  LET cands == {f \in FedUpTo(x, Len(x.writes)) : f.pdu = x.result.pdu} IN
  IF x.result.kind # "reply" THEN {}
  ELSE IF cands = {} THEN {"nomatch"}        \* not the PDU of any frame received during this call
  ELSE LET f == CHOOSE g \in cands : TRUE IN
       (IF f.uid # x.uid /\ T.kind # "tls" THEN {"uid"} ELSE {})
       \cup (IF T.kind = "tcp" /\ f.tid # ReqTid(x) THEN {"tid"} ELSE {})
       \cup (IF Len(f.pdu) >= 1 /\ f.pdu[1] \notin {x.fc, (x.fc + 128) % 256} THEN {"fc"} ELSE {})

Eval(x) ==
  LET obs == [sent |-> Len(x.writes), result |-> Classify(x)]
      frameOK == \A k \in 1..Len(x.writes) :
                    x.writes[k] = Build(T.kind, ReqTid(x), 0, x.uid, x.pdu)
      ghostOK == \A k \in 1..Len(x.script) :
                    (k <= Len(x.fed)) => (Good(x.script[k]) <=> \E f \in Seq2Set(x.fed[k]) : IsOwn(x, f))
      (* the reply that must come back when the outcome is an own reply: the first own frame of the first good attempt *)
      total == SumSeq([k \in 1..Len(x.reads) |-> x.reads[k].got])
      asked == SumSeq([k \in 1..Len(x.reads) |-> x.reads[k].asked])
  IN  (IF ~ghostOK THEN {"GhostScript"} ELSE {})
      \cup (IF x.connfail = 0 /\ ~frameOK THEN {"RequestFrame"} ELSE {})
      \cup (IF ~SendBound(Cfg, obs) THEN {"SendBound"} ELSE {})
      \cup (IF x.connfail = 0 /\ ~NoRaise(obs) THEN {"NoRaise"} ELSE {})
      \cup (IF ~OwnOnly(obs) THEN {"OwnOnly"} ELSE {})
      \cup (IF x.connfail = 0 /\ ghostOK /\ ~Honoured(Cfg, x.script, obs) THEN {"Honoured"} ELSE {})
      \cup (IF ghostOK /\ ~NoInvention(Cfg, x.script, obs) THEN {"NoInvention"} ELSE {})
      \cup (IF x.exact = 1 /\ obs.result = "reply" /\ Len(x.fed) >= 1 /\ Len(x.fed[1]) = 1
               /\ (total # Len(Build(T.kind, x.fed[1][1].tid, 0, x.fed[1][1].uid, x.fed[1][1].pdu))
                   \/ asked # Len(Build(T.kind, x.fed[1][1].tid, 0, x.fed[1][1].uid, x.fed[1][1].pdu)))
            THEN {"ReadsExactlyFrame"} ELSE {})     \* neither stops short nor asks for bytes that never come
      \cup (LET k == Len(x.writes)
                mine == SelectSeq(x.reads, LAMBDA r : r.att = k)
            IN IF x.exact = 1 /\ obs.result = "reply" /\ k >= 2 /\ k <= Len(x.fed) /\ Len(x.fed[k]) = 1
                  /\ (\A j \in 1..(k - 1) : x.fed[j] = <<>>)
                  /\ LET n == Len(Build(T.kind, x.fed[k][1].tid, 0, x.fed[k][1].uid, x.fed[k][1].pdu)) IN
                     \/ SumSeq([j \in 1..Len(mine) |-> mine[j].got]) # n
                     \/ SumSeq([j \in 1..Len(mine) |-> mine[j].asked]) # n
               THEN {"ReadsExactlyFrame"} ELSE {})     \* the same on a retransmission that is answered: the prediction does not drift

Verdict(status, step, clauses, detail) ==
  PrintT("VERDICT " \o ToJson([id |-> T.id, status |-> status, step |-> step, clauses |-> clauses, detail |-> detail]))
Step ==
  /\ out = "run" /\ i <= Len(T.txns)
  /\ LET x == T.txns[i]
         f == Eval(x)
     IN IF f # {} THEN Verdict("FAIL", i, f, [class |-> Classify(x), sent |-> Len(x.writes), script |-> x.script, mismatch |-> Mismatch(x),
                                             must |-> IF MustReply(Cfg, x.script) THEN 1 ELSE 0]) /\ out' = "done"
        ELSE IF i = Len(T.txns) THEN Verdict("OK", i, {}, [n |-> i]) /\ out' = "done" ELSE out' = "run"
  /\ i' = i + 1 /\ UNCHANGED tr
Spec == Init /\ [][Step]_vars
=============================================================================
