------------------------------ MODULE PduTrace ------------------------------
(***************************************************************************)
(* Trace validation for C01 (wire format) and C02 (inverse / purity).      *)
(* A trace is a history of calls made on real pymodbus message objects:    *)
(*  enc   [m, bytes, raised]             object built from m, encoded      *)
(*  dec   [dir, bytes, got, raised]      bytes (computed by TLC from the   *)
(*                                       standard) given to the real decoder*)
(*  enc2  [before, after, bytes, raised] encode() on an existing object    *)
(*  dec2  [bytes, after, fresh, raised]  decode() into a used object vs a  *)
(*                                       fresh one                         *)
(*  rt    [m, dir, bytes, got, raised]   real decode of the real encoding  *)
(*  fp    [b1, b2]                       enc(dec(enc(m))) vs enc(m)        *)
(*  ctor  [m, got]                       the object built from m carries m  *)
(* `got', `before', `after', `fresh' are projections of the documented     *)
(* public fields (harness/pdu_drv.project).                                *)
(***************************************************************************)
EXTENDS ModbusPDU, TLC, Json, IOUtils

Traces == JsonDeserialize(IOEnv.TRACE_FILE).traces
VARIABLES tr, i, lastEnc, out
vars == <<tr, i, lastEnc, out>>
T == Traces[tr]

Init == tr \in 1..Len(Traces) /\ i = 1 /\ lastEnc = <<999>> /\ out = "run"

CanonAny(m) == IF "t" \in DOMAIN m /\ m.t \in {"ReadCoilsRsp", "ReadDiscreteRsp"} /\ "bits" \in DOMAIN m THEN Canon(m) ELSE m

(* [fail, judged] *)
Eval(ev) ==
  LET res(f) == [fail |-> f, judged |-> TRUE]
      skip == [fail |-> {}, judged |-> FALSE]
      raisedC == IF ev.raised # "" THEN {"NoRaise"} ELSE {}
  IN
  CASE ev.op = "enc" ->
         IF ~Expressible(ev.m) THEN skip
         ELSE res(raisedC \cup (IF ev.raised = "" /\ ev.bytes # Encode(ev.m) THEN {"Encode"} ELSE {}))
    [] ev.op = "dec" ->
         LET d == Decode(ev.dir, ev.bytes) IN
         IF d = Malformed THEN skip
         ELSE res(raisedC \cup (IF ev.raised = "" /\ CanonAny(ev.got) # Canon(d)
                                THEN {IF ev.got.t # d.t THEN "DecodeClass" ELSE "Decode"} ELSE {}))
    [] ev.op = "enc2" ->
         res(raisedC \cup (IF ev.raised = "" /\ ev.after # ev.before THEN {"EncPure"} ELSE {})
              \cup (IF ev.raised = "" /\ lastEnc # <<999>> /\ ev.bytes # lastEnc THEN {"EncDeterministic"} ELSE {}))
    [] ev.op = "dec2" ->
         res(raisedC \cup (IF ev.raised = "" /\ ev.after # ev.fresh THEN {"DecFresh"} ELSE {}))
    [] ev.op = "rt" ->
         res(raisedC \cup (IF ev.raised = "" /\ CanonAny(ev.got) # CanonAny(ev.m)
                           THEN {IF ev.got.t # ev.m.t THEN "RoundTripClass" ELSE "RoundTrip"} ELSE {}))
    [] ev.op = "ctor" ->
         res(IF CanonAny(ev.got) # CanonAny(ev.m) THEN {"Constructor"} ELSE {})
    [] ev.op = "fp" -> res(raisedC \cup (IF ev.raised = "" /\ ev.b1 # ev.b2 THEN {"FixedPoint"} ELSE {}))

Verdict(status, step, clauses, detail) ==
  PrintT("VERDICT " \o ToJson([id |-> T.id, status |-> status, step |-> step, clauses |-> clauses, detail |-> detail]))

Step ==
  /\ out = "run" /\ i <= Len(T.ev)
  /\ LET ev == T.ev[i]
         e == Eval(ev)
     IN /\ IF ~e.judged THEN Verdict("UNJUDGED", i, {}, [op |-> ev.op]) /\ out' = "done"
           ELSE IF e.fail # {} THEN
                Verdict("FAIL", i, e.fail,
                        IF ev.op = "enc" THEN [op |-> ev.op, expected |-> Encode(ev.m),
                                               explained_by |-> {d \in DevNames : ev.raised = "" /\ ev.bytes = EncodeD(ev.m, {d})}]
                        ELSE IF ev.op = "dec" THEN [op |-> ev.op, expected |-> Decode(ev.dir, ev.bytes),
                                               explained_by |-> {d \in DevNames : ev.raised = "" /\
                                                                    CanonAny(ev.got) = Canon(DecodeD(ev.dir, ev.bytes, {d}))}]
                        ELSE [op |-> ev.op, explained_by |-> {}]) /\ out' = "done"
           ELSE IF i = Len(T.ev) THEN Verdict("OK", i, {}, [n |-> i]) /\ out' = "done"
           ELSE out' = "run"
        /\ lastEnc' = IF ev.op = "enc2" /\ ev.raised = "" THEN ev.bytes
                      ELSE IF ev.op = "dec2" THEN <<999>> ELSE lastEnc
  /\ i' = i + 1 /\ UNCHANGED tr
Spec == Init /\ [][Step]_vars
=============================================================================
