-------------------------------- MODULE Mei --------------------------------
(***************************************************************************)
(* Read Device Identification (function 43 / MEI type 14), section 6.21 of *)
(* the Modbus Application Protocol v1.1b3, as executable TLA+.             *)
(*                                                                         *)
(* An identity is a function  object id -> value  (a sequence of bytes;    *)
(* the empty sequence, or an id outside the domain, means "not set").      *)
(* Objects are indivisible; a response PDU is at most 253 bytes and has 7  *)
(* bytes of header (function code, MEI type, read code, conformity, more   *)
(* follows, next object id, number of objects) and 2 bytes per object in   *)
(* front of its value: a value of more than 244 bytes can never be sent.   *)
(*                                                                         *)
(* `Expected' is the declarative reading of property C20 (what the chain   *)
(* of pages must deliver); `Respond' is a reference design of the server   *)
(* (a stateless greedy pager) that the model checker proves to satisfy it; *)
(* `Dev' switches on named deviations of that design (non-vacuity, and     *)
(* recognition of a listed finding).  Written from the standard, not from  *)
(* pymodbus/mei_message.py.                                                *)
(***************************************************************************)
EXTENDS ModbusPDU

CONSTANT Dev

MaxPdu    == 253
RspHeader == 7
ObjHeader == 2
PageRoom  == MaxPdu - RspHeader              \* 246 bytes for the objects of one page
MaxVal    == PageRoom - ObjHeader            \* 244: the longest value that fits a page of its own

ObjIds == (0..6) \cup (128..255)             \* 7..127 are reserved
More   == 255
NoMore == 0

(* ---- identities -------------------------------------------------------- *)
Val(idn, x)       == IF x \in DOMAIN idn THEN idn[x] ELSE <<>>
Populated(idn, x) == x \in ObjIds /\ Val(idn, x) # <<>>
PopIds(idn)       == {x \in DOMAIN idn : Populated(idn, x)}
NPop(idn)         == Cardinality(PopIds(idn))
AllFit(idn)       == \A x \in PopIds(idn) : Len(Val(idn, x)) <= MaxVal
MaxLen(idn)       == IF PopIds(idn) = {} THEN 0
                     ELSE LET m == CHOOSE x \in PopIds(idn) : \A y \in PopIds(idn) : Len(Val(idn, y)) <= Len(Val(idn, x))
                          IN Len(Val(idn, m))

(* ---- categories -------------------------------------------------------- *)
(* read code 1 basic, 2 regular, 3 extended: stream access; 4: individual access to one object *)
Category(code) == CASE code = 1 -> 0..2
                    [] code = 2 -> 0..6
                    [] code = 3 -> ObjIds
                    [] code = 4 -> ObjIds
                    [] OTHER -> {}
IsStream(code) == code \in {1, 2, 3}
InCat(idn, code, x) == x \in Category(code) /\ Populated(idn, x)

RECURSIVE Ascending(_)
Ascending(S) == IF S = {} THEN <<>>
                ELSE LET m == CHOOSE x \in S : \A y \in S : x <= y IN <<m>> \o Ascending(S \ {m})

Obj(idn, x) == [id |-> x, val |-> Val(idn, x)]
(* the populated objects of the category with id >= from, in ascending id order *)
StreamFrom(idn, code, from) ==
  LET ids == Ascending({x \in PopIds(idn) : x \in Category(code) /\ x >= from})
  IN [k \in 1..Len(ids) |-> Obj(idn, ids[k])]

(* ---- the property's demand --------------------------------------------- *)
(* C20 constrains content only for a start id that is 0 or a populated object of the category, and  *)
(* (DESIGN.md, C20) only for identities whose every value can be sent at all                         *)
Judged(idn, code, start) ==
  /\ AllFit(idn)
  /\ IF IsStream(code) THEN start = 0 \/ InCat(idn, code, start) ELSE InCat(idn, code, start)
Expected(idn, code, start) ==
  IF IsStream(code) THEN StreamFrom(idn, code, start) ELSE <<Obj(idn, start)>>

(* ---- reference design: a stateless greedy pager ------------------------- *)
(* what the server can offer at all: an object that fits no PDU is treated as absent *)
Offered(idn, x) ==
  Populated(idn, x) /\ (Len(Val(idn, x)) <= MaxVal \/ "OversizeStalls" \in Dev)
OfferedFrom(idn, code, from) ==
  LET ids == Ascending({x \in PopIds(idn) : x \in Category(code) /\ x >= from /\ Offered(idn, x)})
  IN [k \in 1..Len(ids) |-> Obj(idn, ids[k])]
(* stream access: "if the object id does not match any known object the server responds as if object 0 were pointed out" *)
EffStart(idn, code, oid) == IF oid \in Category(code) /\ Offered(idn, oid) THEN oid ELSE 0

ObjSize(o) == ObjHeader + Len(o.val)
Room == IF "SpaceOffByOne" \in Dev THEN PageRoom + 1 ELSE PageRoom
(* number of leading objects of `objs' that fit into `room' bytes *)
RECURSIVE FitCount(_, _, _)
FitCount(objs, k, room) ==
  IF k > Len(objs) THEN Len(objs)
  ELSE IF ObjSize(objs[k]) > room THEN k - 1
  ELSE FitCount(objs, k + 1, room - ObjSize(objs[k]))

ConfLevel(idn) == IF \E x \in PopIds(idn) : x >= 128 THEN 131
                  ELSE IF \E x \in PopIds(idn) : x >= 3 THEN 130 ELSE 129

Page(idn, code, objs, more, next) ==
  [t |-> "DevIdRsp", code |-> code, conf |-> ConfLevel(idn), more |-> more, next |-> next, objs |-> objs]

Respond(idn, code, oid) ==
  IF ~IsStream(code) /\ "IndividualStreams" \notin Dev
  THEN IF Offered(idn, oid) /\ ObjSize(Obj(idn, oid)) <= Room
       THEN Page(idn, code, <<Obj(idn, oid)>>, NoMore, 0)
       ELSE IF Offered(idn, oid)              \* only with OversizeStalls: announce the same object again
       THEN Page(idn, code, <<>>, More, oid)
       ELSE [t |-> "Exception", fc |-> 43, code |-> 2]
  ELSE
    LET cat  == IF IsStream(code) THEN code ELSE 3
        all  == OfferedFrom(idn, cat, EffStart(idn, cat, oid))
        n    == IF "NoSpaceCheck" \in Dev THEN Len(all) ELSE FitCount(all, 1, Room)
        sent == SubSeq(all, 1, n)
        rest0 == SubSeq(all, n + 1, Len(all))
        rest == IF "SkipsObjectAfterPageBreak" \in Dev /\ rest0 # <<>> THEN Tail(rest0) ELSE rest0
    IN IF rest = <<>> THEN Page(idn, code, sent, NoMore, 0)
       ELSE IF "NextIsLastSent" \in Dev /\ sent # <<>> THEN Page(idn, code, sent, More, sent[Len(sent)].id)
       ELSE Page(idn, code, sent, More, rest[1].id)

(* ---- helpers shared by the model and the trace validator ---------------- *)
IsPrefix(s, t) == Len(s) <= Len(t) /\ \A k \in 1..Len(s) : s[k] = t[k]
IdsOf(objs) == [k \in 1..Len(objs) |-> objs[k].id]
Distinct(s) == \A a, b \in 1..Len(s) : a # b => s[a] # s[b]
=============================================================================
