------------------------------ MODULE ThreadsMC ------------------------------
(***************************************************************************)
(* C15: several caller threads share one synchronous client.  Each thread  *)
(* performs K transactions; a transaction is Acquire, Send, Recv (one or   *)
(* two reads), Release.  The peer answers every request frame it sees in   *)
(* order.  TLC explores every interleaving of the threads' steps.          *)
(*   TDev: NoLock (no mutual exclusion), LockOnlyAroundSend                *)
(***************************************************************************)
EXTENDS Naturals, Sequences, FiniteSets, TLC

CONSTANTS NT, K, TDev
VARIABLES pc, lock, rx, got, cnt, active
vars == <<pc, lock, rx, got, cnt, active>>
Th == 1..NT

Init == /\ pc = [t \in Th |-> "idle"] /\ lock = 0 /\ rx = <<>> /\ got = [t \in Th |-> <<>>]
        /\ cnt = [t \in Th |-> 0] /\ active = {}

Acquire(t) == /\ pc[t] = "idle" /\ cnt[t] < K
              /\ ("NoLock" \in TDev \/ lock = 0)
              /\ lock' = IF "NoLock" \in TDev THEN lock ELSE t
              /\ pc' = [pc EXCEPT ![t] = "send"] /\ UNCHANGED <<rx, got, cnt, active>>
Send(t) == /\ pc[t] = "send"
           /\ rx' = Append(rx, t)                      \* the peer queues the reply to t's request
           /\ active' = active \cup {t}
           /\ lock' = IF "LockOnlyAroundSend" \in TDev THEN 0 ELSE lock
           /\ pc' = [pc EXCEPT ![t] = "recv"] /\ UNCHANGED <<got, cnt>>
Recv(t) == /\ pc[t] = "recv" /\ rx # <<>>
           /\ got' = [got EXCEPT ![t] = Append(@, Head(rx))]
           /\ rx' = Tail(rx)
           /\ active' = active \ {t}
           /\ pc' = [pc EXCEPT ![t] = "release"] /\ UNCHANGED <<lock, cnt>>
Release(t) == /\ pc[t] = "release"
              /\ lock' = IF lock = t THEN 0 ELSE lock
              /\ cnt' = [cnt EXCEPT ![t] = @ + 1]
              /\ pc' = [pc EXCEPT ![t] = "idle"] /\ UNCHANGED <<rx, got, active>>
Done == \A t \in Th : cnt[t] = K /\ pc[t] = "idle"
Next == (\E t \in Th : Acquire(t) \/ Send(t) \/ Recv(t) \/ Release(t)) \/ (Done /\ UNCHANGED vars)
Spec == Init /\ [][Next]_vars /\ WF_vars(Next)

Mutex == Cardinality(active) <= 1
OwnReply == \A t \in Th : \A k \in 1..Len(got[t]) : got[t][k] = t
NoLossNoDup == Done => \A t \in Th : Len(got[t]) = K
Completes == <>Done
=============================================================================
