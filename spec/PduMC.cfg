SPECIFICATION Spec
CONSTANT Export = FALSE
INVARIANT RoundTrip
INVARIANT SizeBound
INVARIANT ExceptionLayout
INVARIANT ByteCount
CHECK_DEADLOCK FALSE
