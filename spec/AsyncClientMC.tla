---------------------------- MODULE AsyncClientMC ----------------------------
(***************************************************************************)
(* All histories of up to MaxD requests on one connection with a           *)
(* transaction-id space of 4 (so that wrap-around and collisions are       *)
(* reachable): replies in every order, duplicate and unsolicited replies,  *)
(* connection loss at every point, requests issued after the loss.         *)
(***************************************************************************)
EXTENDS AsyncClient, TLC
CONSTANT MaxD
VARIABLES st, issued, tidOf, fired, wire
vars == <<st, issued, tidOf, fired, wire>>
D == 1..MaxD

Init == /\ st = [next |-> 0, pending |-> <<>>, connected |-> TRUE]
        /\ issued = {} /\ tidOf = [d \in D |-> 99] /\ fired = [d \in D |-> <<>>] /\ wire = {}

DoExecute(d) ==
  /\ d \notin issued /\ (d = 1 \/ (d - 1) \in issued)
  /\ issued' = issued \cup {d}
  /\ IF ~st.connected
     THEN /\ fired' = [fired EXCEPT ![d] = Append(@, 1001)] /\ UNCHANGED <<st, tidOf, wire>>
     ELSE /\ CanExecute(st)
          /\ st' = Execute(st, d)
          /\ tidOf' = [tidOf EXCEPT ![d] = NextFree(st)]
          /\ wire' = wire \cup {NextFree(st)}
          /\ UNCHANGED fired
DoReply(t) ==      \* any tid: pending, already answered (duplicate) or never used (unsolicited)
  /\ st.connected
  /\ LET r == Reply(st, t) IN
     /\ st' = r.st
     /\ fired' = [d \in D |-> IF d \in r.fired THEN Append(fired[d], t) ELSE fired[d]]
  /\ UNCHANGED <<issued, tidOf, wire>>
DoLost ==
  /\ st.connected
  /\ LET r == Lost(st) IN
     /\ st' = r.st
     /\ fired' = [d \in D |-> IF d \in r.fired THEN Append(fired[d], 1000) ELSE fired[d]]
  /\ UNCHANGED <<issued, tidOf, wire>>
Next == (\E d \in D : DoExecute(d)) \/ (\E t \in 0..(TidSpace - 1) : DoReply(t)) \/ DoLost
Spec == Init /\ [][Next]_vars

Outstanding == {d \in issued : fired[d] = <<>>}
FiresOnce == \A d \in D : Len(fired[d]) <= 1
Match == \A d \in D : (fired[d] # <<>> /\ fired[d][1] \notin {1000, 1001}) => fired[d][1] = tidOf[d]
Distinct == \A a, b \in Outstanding : a # b => tidOf[a] # tidOf[b]
LossFailsAll == ~st.connected => Outstanding = {}
(* no outstanding request is ever forgotten: it stays paired with its tid until it fires *)
NeverForgotten == \A d \in Outstanding : st.connected => (tidOf[d] \in DOMAIN st.pending /\ st.pending[tidOf[d]] = d)
=============================================================================
