---------------------------- MODULE PredictTrace ----------------------------
(***************************************************************************)
(* C14: the reply-size predictions of the client side against the          *)
(* specification.                                                          *)
(*  [op |-> "pdu", req, predicted, real]  request PDU, its                  *)
(*        get_response_pdu_size(), and 1 + len(encode()) of the response   *)
(*        the real server produced for it                                  *)
(*  [op |-> "adu", kind, pdulen, total]   _calculate_response_length       *)
(*  [op |-> "exc", kind, total]           _calculate_exception_length      *)
(* Expected PDU size of a data-access request = length of the encoding of  *)
(* the response DataModel!Exec gives on a store where every address is     *)
(* valid; for diagnostics one data word is echoed (two bytes), N words for *)
(* Return Query Data.                                                      *)
(***************************************************************************)
EXTENDS DataModel, Framing, TLC, Json, IOUtils

Traces == JsonDeserialize(IOEnv.TRACE_FILE).traces
VARIABLES tr, i, out
T == Traces[tr]
Init == tr \in 1..Len(Traces) /\ i = 1 /\ out = "run"

Full(def) == [kind |-> "seq", start |-> 0, size |-> 65536, def |-> def, ov |-> <<>>, fail |-> FALSE]
BigCtx == [zero |-> TRUE, map |-> [c |-> "b", d |-> "b", h |-> "r", i |-> "r"], blocks |-> [b |-> Full(0), r |-> Full(0)]]

SpecPduLen(req) ==
  LET r == ParseReq(req) IN
  IF Judged(r) /\ r.k # "unknown" THEN Len(Encode(Exec(BigCtx, r).rsp))
  ELSE IF req[1] = 8 /\ Len(req) >= 5 /\ U16At(req, 2) \notin {4, 21}
       THEN Len(req)       \* diagnostics: the response echoes sub-function and data words (sub 4: no reply; sub 21: device statistics)
  ELSE 0
(* bytes a framing adds around a PDU of pdulen bytes (binary: before doubling of '{' / '}', which no length prediction can know) *)
Overhead(kind, pdulen) == IF kind = "bin" THEN 2 + Len(RtuFrame(1, [k \in 1..pdulen |-> 1]))
                          ELSE Len(Build(kind, 1, 0, 1, [k \in 1..pdulen |-> 1]))
Eval(ev) ==
  CASE ev.op = "pdu" ->
         (IF SpecPduLen(ev.req) # 0 /\ ev.predicted # SpecPduLen(ev.req) THEN {"PredictedPduSize"} ELSE {})
         \cup (IF ev.real # 0 /\ ev.predicted # ev.real THEN {"PredictedEqualsReal"} ELSE {})
    [] ev.op = "adu" -> IF ev.total # Overhead(ev.kind, ev.pdulen) THEN {"AduOverhead"} ELSE {}
    [] ev.op = "exc" -> IF ev.total # Overhead(ev.kind, 2) THEN {"ExceptionLength"} ELSE {}
Step ==
  /\ out = "run" /\ i <= Len(T.ev)
  /\ LET f == Eval(T.ev[i]) IN
     IF f # {} THEN PrintT("VERDICT " \o ToJson([id |-> T.id, status |-> "FAIL", step |-> i, clauses |-> f,
                                                 detail |-> [spec |-> IF T.ev[i].op = "pdu" THEN SpecPduLen(T.ev[i].req) ELSE 0]])) /\ out' = "done"
     ELSE IF i = Len(T.ev) THEN PrintT("VERDICT " \o ToJson([id |-> T.id, status |-> "OK", step |-> i, clauses |-> {}, detail |-> [n |-> i]])) /\ out' = "done"
     ELSE out' = "run"
  /\ i' = i + 1 /\ UNCHANGED tr
Spec == Init /\ [][Step]_<<tr, i, out>>
=============================================================================
