SPECIFICATION Spec
CONSTANTS
  NT = 4
  K = 3
  Drops = 2
  TDev = {}
CHECK_DEADLOCK FALSE
