----------------------------- MODULE ModbusPDU -----------------------------
(***************************************************************************)
(* The Modbus Application Protocol v1.1b3 PDU layouts as executable TLA+.  *)
(*                                                                         *)
(* A message is a record with a tag `t' and the fields the standard gives  *)
(* that PDU; `Encode(m)' is the complete PDU (function code byte first);    *)
(* `Decode(dir, b)' (dir = "req" for what a server receives, "rsp" for     *)
(* what a client receives) is the message a conformant PDU denotes, or     *)
(* `Malformed' when the bytes are not a conformant PDU of a supported      *)
(* function code (wrong length, byte count that contradicts the data,      *)
(* unsupported code ...).  Written from the standard's tables, not from    *)
(* pymodbus: it is the oracle for C01/C02/C14 and the codec used by        *)
(* DataModel/Server/ClientTxn.                                             *)
(***************************************************************************)
EXTENDS Bytes

Malformed == [t |-> "malformed"]

(* ---- tags ------------------------------------------------------------ *)
ReadReqTag(fc)  == CASE fc = 1 -> "ReadCoilsReq" [] fc = 2 -> "ReadDiscreteReq"
                     [] fc = 3 -> "ReadHoldingReq" [] fc = 4 -> "ReadInputReq"
ReadRspTag(fc)  == CASE fc = 1 -> "ReadCoilsRsp" [] fc = 2 -> "ReadDiscreteRsp"
                     [] fc = 3 -> "ReadHoldingRsp" [] fc = 4 -> "ReadInputRsp"
                     [] fc = 23 -> "ReadWriteRsp"
FcOf(t) ==
  CASE t \in {"ReadCoilsReq", "ReadCoilsRsp"} -> 1
    [] t \in {"ReadDiscreteReq", "ReadDiscreteRsp"} -> 2
    [] t \in {"ReadHoldingReq", "ReadHoldingRsp"} -> 3
    [] t \in {"ReadInputReq", "ReadInputRsp"} -> 4
    [] t \in {"WriteCoilReq", "WriteCoilRsp"} -> 5
    [] t \in {"WriteRegReq", "WriteRegRsp"} -> 6
    [] t \in {"ExcStatusReq", "ExcStatusRsp"} -> 7
    [] t \in {"DiagReq", "DiagRsp"} -> 8
    [] t \in {"EventCounterReq", "EventCounterRsp"} -> 11
    [] t \in {"EventLogReq", "EventLogRsp"} -> 12
    [] t \in {"WriteCoilsReq", "WriteCoilsRsp"} -> 15
    [] t \in {"WriteRegsReq", "WriteRegsRsp"} -> 16
    [] t \in {"SlaveIdReq", "SlaveIdRsp"} -> 17
    [] t \in {"ReadFileReq", "ReadFileRsp"} -> 20
    [] t \in {"WriteFileReq", "WriteFileRsp"} -> 21
    [] t \in {"MaskWriteReq", "MaskWriteRsp"} -> 22
    [] t \in {"ReadWriteReq", "ReadWriteRsp"} -> 23
    [] t \in {"FifoReq", "FifoRsp"} -> 24
    [] t \in {"DevIdReq", "DevIdRsp"} -> 43

SupportedFc == {1,2,3,4,5,6,7,8,11,12,15,16,17,20,21,22,23,24,43}
CoilWord(on) == IF on = 1 THEN <<255, 0>> ELSE <<0, 0>>

(* ---- file records ---------------------------------------------------- *)
(* read request sub-record  [file, rec, len]                               *)
(* write req/rsp sub-record [file, rec, data (words)]                      *)
(* read response sub-record [data (words)]                                 *)
EncReadSub(r)  == <<6>> \o U16(r.file) \o U16(r.rec) \o U16(r.len)
EncWriteSub(r) == <<6>> \o U16(r.file) \o U16(r.rec) \o U16(Len(r.data)) \o Words(r.data)
EncRspSub(r)   == <<2 * Len(r.data) + 1, 6>> \o Words(r.data)
EncRspSubSwapped(r) == <<6, Len(r.data)>> \o Words(r.data)      \* deviation FileRspSubHeaderSwapped
EncObj(o)      == <<o.id, Len(o.val)>> \o o.val

(* ---- Encode ---------------------------------------------------------- *)
(* D is a set of named deviations (see DESIGN.md 2.1); EncodeD(m, {}) is the standard.        *)
(*   FifoCountIsByteLength   : the FIFO count field carries 2n instead of n                    *)
(*   FileRspSubHeaderSwapped : read-file sub-response starts (0x06, words) not (length, 0x06)  *)
(*   SlaveIdKeepsRunByte     : decoding keeps the run indicator inside the identifier          *)
(*   FifoDecodeDropsFour     : decoding reads count-4 values                                   *)
DevNames == {"FifoCountIsByteLength", "FileRspSubHeaderSwapped", "SlaveIdKeepsRunByte", "FifoDecodeDropsFour"}
EncodeD(m, D) ==
  LET t == m.t IN
  CASE t = "Exception" -> <<(m.fc + 128) % 256, m.code>>
    [] t \in {"ReadCoilsReq", "ReadDiscreteReq", "ReadHoldingReq", "ReadInputReq"} ->
         <<FcOf(t)>> \o U16(m.addr) \o U16(m.qty)
    [] t \in {"ReadCoilsRsp", "ReadDiscreteRsp"} ->
         <<FcOf(t), Len(PackBits(m.bits))>> \o PackBits(m.bits)
    [] t \in {"ReadHoldingRsp", "ReadInputRsp", "ReadWriteRsp"} ->
         <<FcOf(t), (2 * Len(m.regs)) % 256>> \o Words(m.regs)
    [] t \in {"WriteCoilReq", "WriteCoilRsp"} -> <<5>> \o U16(m.addr) \o CoilWord(m.on)
    [] t \in {"WriteRegReq", "WriteRegRsp"} -> <<6>> \o U16(m.addr) \o U16(m.val)
    [] t = "WriteCoilsReq" ->
         <<15>> \o U16(m.addr) \o U16(Len(m.bits)) \o <<Len(PackBits(m.bits)) % 256>> \o PackBits(m.bits)
    [] t = "WriteRegsReq" ->
         <<16>> \o U16(m.addr) \o U16(Len(m.regs)) \o <<(2 * Len(m.regs)) % 256>> \o Words(m.regs)
    [] t \in {"WriteCoilsRsp", "WriteRegsRsp"} -> <<FcOf(t)>> \o U16(m.addr) \o U16(m.qty)
    [] t \in {"MaskWriteReq", "MaskWriteRsp"} -> <<22>> \o U16(m.addr) \o U16(m.andm) \o U16(m.orm)
    [] t = "ReadWriteReq" ->
         <<23>> \o U16(m.raddr) \o U16(m.rqty) \o U16(m.waddr) \o U16(Len(m.regs))
                \o <<(2 * Len(m.regs)) % 256>> \o Words(m.regs)
    [] t \in {"ExcStatusReq", "EventCounterReq", "EventLogReq", "SlaveIdReq"} -> <<FcOf(t)>>
    [] t = "ExcStatusRsp" -> <<7, m.status>>
    [] t = "EventCounterRsp" -> <<11>> \o U16(IF m.ready = 1 THEN 0 ELSE 65535) \o U16(m.count)
    [] t = "EventLogRsp" ->
         <<12, 6 + Len(m.events)>> \o U16(IF m.ready = 1 THEN 0 ELSE 65535)
              \o U16(m.evcount) \o U16(m.msgcount) \o m.events
    [] t = "SlaveIdRsp" -> <<17, Len(m.id) + 1>> \o m.id \o <<IF m.run = 1 THEN 255 ELSE 0>>
    [] t \in {"DiagReq", "DiagRsp"} -> <<8>> \o U16(m.sub) \o Words(m.data)
    [] t = "ReadFileReq" ->
         <<20, (7 * Len(m.recs)) % 256>> \o Flatten([i \in 1..Len(m.recs) |-> EncReadSub(m.recs[i])])
    [] t = "ReadFileRsp" ->
         LET body == Flatten([i \in 1..Len(m.recs) |->
                        IF "FileRspSubHeaderSwapped" \in D THEN EncRspSubSwapped(m.recs[i]) ELSE EncRspSub(m.recs[i])])
         IN <<20, Len(body) % 256>> \o body
    [] t \in {"WriteFileReq", "WriteFileRsp"} ->
         LET body == Flatten([i \in 1..Len(m.recs) |-> EncWriteSub(m.recs[i])])
         IN <<21, Len(body) % 256>> \o body
    [] t = "FifoReq" -> <<24>> \o U16(m.addr)
    [] t = "FifoRsp" ->
         <<24>> \o U16(2 + 2 * Len(m.regs))
                \o U16(IF "FifoCountIsByteLength" \in D THEN 2 * Len(m.regs) ELSE Len(m.regs)) \o Words(m.regs)
    [] t = "DevIdReq" -> <<43, 14, m.code, m.oid>>
    [] t = "DevIdRsp" ->
         <<43, 14, m.code, m.conf, m.more, m.next, Len(m.objs)>>
            \o Flatten([i \in 1..Len(m.objs) |-> EncObj(m.objs[i])])

Encode(m) == EncodeD(m, {})
PduLen(m) == Len(Encode(m))

(* ---- Decode helpers --------------------------------------------------- *)
RECURSIVE ParseReadSubs(_, _)
ParseReadSubs(b, i) ==      \* groups of 7 bytes from position i to the end
  IF i > Len(b) THEN <<>>
  ELSE <<[file |-> U16At(b, i+1), rec |-> U16At(b, i+3), len |-> U16At(b, i+5)]>>
         \o ParseReadSubs(b, i + 7)
ReadSubsOK(b, i) == (Len(b) - i + 1) % 7 = 0
                    /\ \A k \in 0..(((Len(b) - i + 1) \div 7) - 1) : b[i + 7*k] = 6

(* write sub-records: returns <<ok, recs>> *)
RECURSIVE ParseWriteSubs(_, _)
ParseWriteSubs(b, i) ==
  IF i > Len(b) THEN <<TRUE, <<>>>>
  ELSE IF i + 6 > Len(b) \/ b[i] # 6 THEN <<FALSE, <<>>>>
  ELSE LET n == U16At(b, i+5) IN
       IF i + 6 + 2*n > Len(b) THEN <<FALSE, <<>>>>
       ELSE LET rest == ParseWriteSubs(b, i + 7 + 2*n) IN
            <<rest[1], <<[file |-> U16At(b, i+1), rec |-> U16At(b, i+3),
                          data |-> WordsAt(b, i+7, n)]>> \o rest[2]>>

RECURSIVE ParseRspSubs(_, _)
ParseRspSubs(b, i) ==
  IF i > Len(b) THEN <<TRUE, <<>>>>
  ELSE IF i + 1 > Len(b) THEN <<FALSE, <<>>>>
  ELSE LET n == b[i] IN      \* length of the sub-response: reference type + data
       IF n < 1 \/ (n - 1) % 2 # 0 \/ b[i+1] # 6 \/ i + n > Len(b) THEN <<FALSE, <<>>>>
       ELSE LET rest == ParseRspSubs(b, i + 1 + n) IN
            <<rest[1], <<[data |-> WordsAt(b, i+2, (n-1) \div 2)]>> \o rest[2]>>

RECURSIVE ParseObjs(_, _, _)
ParseObjs(b, i, n) ==        \* n objects from position i, must end exactly at Len(b)
  IF n = 0 THEN <<i = Len(b) + 1, <<>>>>
  ELSE IF i + 1 > Len(b) THEN <<FALSE, <<>>>>
  ELSE LET l == b[i+1] IN
       IF i + 1 + l > Len(b) THEN <<FALSE, <<>>>>
       ELSE LET rest == ParseObjs(b, i + 2 + l, n - 1) IN
            <<rest[1], <<[id |-> b[i], val |-> Slice(b, i+2, l)]>> \o rest[2]>>

(* ---- Decode ----------------------------------------------------------- *)
DecodeReq(b) ==
  IF Len(b) = 0 THEN Malformed ELSE
  LET fc == b[1] n == Len(b) IN
  CASE fc \in {1,2,3,4} ->
         IF n = 5 THEN [t |-> ReadReqTag(fc), addr |-> U16At(b,2), qty |-> U16At(b,4)] ELSE Malformed
    [] fc = 5 ->
         IF n = 5 /\ U16At(b,4) \in {0, 65280}
         THEN [t |-> "WriteCoilReq", addr |-> U16At(b,2), on |-> IF U16At(b,4) = 65280 THEN 1 ELSE 0]
         ELSE Malformed
    [] fc = 6 -> IF n = 5 THEN [t |-> "WriteRegReq", addr |-> U16At(b,2), val |-> U16At(b,4)] ELSE Malformed
    [] fc = 15 ->
         IF n >= 6 /\ b[6] = n - 6 /\ b[6] = (U16At(b,4) + 7) \div 8
         THEN [t |-> "WriteCoilsReq", addr |-> U16At(b,2), bits |-> Take(UnpackBits(Drop(b, 6)), U16At(b,4))]
         ELSE Malformed
    [] fc = 16 ->
         IF n >= 6 /\ b[6] = n - 6 /\ b[6] = 2 * U16At(b,4)
         THEN [t |-> "WriteRegsReq", addr |-> U16At(b,2), regs |-> WordsAt(b, 7, U16At(b,4))]
         ELSE Malformed
    [] fc = 22 ->
         IF n = 7 THEN [t |-> "MaskWriteReq", addr |-> U16At(b,2), andm |-> U16At(b,4), orm |-> U16At(b,6)]
         ELSE Malformed
    [] fc = 23 ->
         IF n >= 10 /\ b[10] = n - 10 /\ b[10] = 2 * U16At(b,8)
         THEN [t |-> "ReadWriteReq", raddr |-> U16At(b,2), rqty |-> U16At(b,4), waddr |-> U16At(b,6),
               regs |-> WordsAt(b, 11, U16At(b,8))]
         ELSE Malformed
    [] fc = 7  -> IF n = 1 THEN [t |-> "ExcStatusReq"] ELSE Malformed
    [] fc = 11 -> IF n = 1 THEN [t |-> "EventCounterReq"] ELSE Malformed
    [] fc = 12 -> IF n = 1 THEN [t |-> "EventLogReq"] ELSE Malformed
    [] fc = 17 -> IF n = 1 THEN [t |-> "SlaveIdReq"] ELSE Malformed
    [] fc = 8 ->    \* 6.8: sub-function + data; Return Query Data carries any N >= 1 words, every other request one word
         IF n >= 5 /\ (n - 1) % 2 = 0 /\ (U16At(b,2) = 0 \/ n = 5)
         THEN [t |-> "DiagReq", sub |-> U16At(b,2), data |-> WordsAt(b, 4, (n - 3) \div 2)]
         ELSE Malformed
    [] fc = 20 ->
         IF n >= 2 /\ b[2] = n - 2 /\ ReadSubsOK(b, 3)
         THEN [t |-> "ReadFileReq", recs |-> ParseReadSubs(b, 3)] ELSE Malformed
    [] fc = 21 ->
         IF n >= 2 /\ b[2] = n - 2 /\ ParseWriteSubs(b, 3)[1]
         THEN [t |-> "WriteFileReq", recs |-> ParseWriteSubs(b, 3)[2]] ELSE Malformed
    [] fc = 24 -> IF n = 3 THEN [t |-> "FifoReq", addr |-> U16At(b,2)] ELSE Malformed
    [] fc = 43 ->
         IF n = 4 /\ b[2] = 14 THEN [t |-> "DevIdReq", code |-> b[3], oid |-> b[4]] ELSE Malformed
    [] OTHER -> Malformed

DecodeRspD(b, D) ==
  IF Len(b) = 0 THEN Malformed ELSE
  LET fc == b[1] n == Len(b) IN
  CASE fc > 128 -> IF n = 2 THEN [t |-> "Exception", fc |-> fc - 128, code |-> b[2]] ELSE Malformed
    [] fc \in {1,2} ->
         IF n >= 2 /\ b[2] = n - 2 THEN [t |-> ReadRspTag(fc), bits |-> UnpackBits(Drop(b, 2))] ELSE Malformed
    [] fc \in {3,4,23} ->
         IF n >= 2 /\ b[2] = n - 2 /\ b[2] % 2 = 0
         THEN [t |-> ReadRspTag(fc), regs |-> WordsAt(b, 3, b[2] \div 2)] ELSE Malformed
    [] fc = 5 ->
         IF n = 5 /\ U16At(b,4) \in {0, 65280}
         THEN [t |-> "WriteCoilRsp", addr |-> U16At(b,2), on |-> IF U16At(b,4) = 65280 THEN 1 ELSE 0]
         ELSE Malformed
    [] fc = 6 -> IF n = 5 THEN [t |-> "WriteRegRsp", addr |-> U16At(b,2), val |-> U16At(b,4)] ELSE Malformed
    [] fc = 15 -> IF n = 5 THEN [t |-> "WriteCoilsRsp", addr |-> U16At(b,2), qty |-> U16At(b,4)] ELSE Malformed
    [] fc = 16 -> IF n = 5 THEN [t |-> "WriteRegsRsp", addr |-> U16At(b,2), qty |-> U16At(b,4)] ELSE Malformed
    [] fc = 22 ->
         IF n = 7 THEN [t |-> "MaskWriteRsp", addr |-> U16At(b,2), andm |-> U16At(b,4), orm |-> U16At(b,6)]
         ELSE Malformed
    [] fc = 7 -> IF n = 2 THEN [t |-> "ExcStatusRsp", status |-> b[2]] ELSE Malformed
    [] fc = 11 ->
         IF n = 5 /\ U16At(b,2) \in {0, 65535}
         THEN [t |-> "EventCounterRsp", ready |-> IF U16At(b,2) = 0 THEN 1 ELSE 0, count |-> U16At(b,4)]
         ELSE Malformed
    [] fc = 12 ->
         IF n >= 8 /\ b[2] = n - 2 /\ U16At(b,3) \in {0, 65535}
         THEN [t |-> "EventLogRsp", ready |-> IF U16At(b,3) = 0 THEN 1 ELSE 0,
               evcount |-> U16At(b,5), msgcount |-> U16At(b,7), events |-> Drop(b, 8)]
         ELSE Malformed
    [] fc = 17 ->
         IF n >= 3 /\ b[2] = n - 2 /\ b[n] \in {0, 255}
         THEN [t |-> "SlaveIdRsp", id |-> SubSeq(b, 3, IF "SlaveIdKeepsRunByte" \in D THEN n ELSE n - 1),
               run |-> IF b[n] = 255 THEN 1 ELSE 0]
         ELSE Malformed
    [] fc = 8 ->    \* echo of N words for sub 0, statistics block for sub 21 (Modbus Plus), one word otherwise
         IF n >= 5 /\ (n - 1) % 2 = 0 /\ (U16At(b,2) \in {0, 21} \/ n = 5)
         THEN [t |-> "DiagRsp", sub |-> U16At(b,2), data |-> WordsAt(b, 4, (n - 3) \div 2)]
         ELSE Malformed
    [] fc = 20 ->
         IF n >= 2 /\ b[2] = n - 2 /\ ParseRspSubs(b, 3)[1]
         THEN [t |-> "ReadFileRsp", recs |-> ParseRspSubs(b, 3)[2]] ELSE Malformed
    [] fc = 21 ->
         IF n >= 2 /\ b[2] = n - 2 /\ ParseWriteSubs(b, 3)[1]
         THEN [t |-> "WriteFileRsp", recs |-> ParseWriteSubs(b, 3)[2]] ELSE Malformed
    [] fc = 24 ->
         IF n >= 5 /\ U16At(b,4) <= 31 /\ U16At(b,2) = 2 + 2 * U16At(b,4) /\ n = 5 + 2 * U16At(b,4)
         THEN [t |-> "FifoRsp", regs |-> WordsAt(b, 6, IF "FifoDecodeDropsFour" \in D
                                                       THEN (IF U16At(b,4) >= 4 THEN U16At(b,4) - 4 ELSE 0)
                                                       ELSE U16At(b,4))] ELSE Malformed
    [] fc = 43 ->
         IF n >= 7 /\ b[2] = 14 /\ ParseObjs(b, 8, b[7])[1]
         THEN [t |-> "DevIdRsp", code |-> b[3], conf |-> b[4], more |-> b[5], next |-> b[6],
               objs |-> ParseObjs(b, 8, b[7])[2]]
         ELSE Malformed
    [] OTHER -> Malformed

DecodeRsp(b) == DecodeRspD(b, {})
Decode(dir, b) == IF dir = "req" THEN DecodeReq(b) ELSE DecodeRsp(b)
DecodeD(dir, b, D) == IF dir = "req" THEN DecodeReq(b) ELSE DecodeRspD(b, D)

(* messages are compared up to zero padding of bit lists to a byte boundary *)
Canon(m) ==
  IF m.t \in {"ReadCoilsRsp", "ReadDiscreteRsp"} THEN [m EXCEPT !.bits = PadBits(m.bits)] ELSE m

(* a message whose every count fits its length field, i.e. that the standard can express *)
Expressible(m) ==
  LET t == m.t IN
  CASE t \in {"ReadCoilsRsp", "ReadDiscreteRsp"} -> Len(m.bits) <= 2040
    [] t \in {"ReadHoldingRsp", "ReadInputRsp", "ReadWriteRsp"} -> Len(m.regs) <= 127
    [] t = "WriteCoilsReq" -> Len(m.bits) <= 2040
    [] t \in {"WriteRegsReq", "ReadWriteReq"} -> Len(m.regs) <= 127
    [] t = "FifoRsp" -> Len(m.regs) <= 31
    [] t = "DiagReq" -> Len(m.data) >= 1 /\ (m.sub = 0 \/ Len(m.data) = 1)
    [] t = "DiagRsp" -> Len(m.data) >= 1 /\ (m.sub \in {0, 21} \/ Len(m.data) = 1)
    [] t = "DevIdRsp" -> /\ Len(m.objs) <= 255          \* one PDU holds at most 253 bytes: what does not fit is paged (Mei.tla, C20)
                         /\ 7 + SumSeq([i \in 1..Len(m.objs) |-> 2 + Len(m.objs[i].val)]) <= 253
    [] OTHER -> TRUE
=============================================================================
