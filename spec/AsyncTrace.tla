------------------------------ MODULE AsyncTrace ------------------------------
(***************************************************************************)
(* Trace validation for C16: histories run on the real Twisted client      *)
(* protocol (dictionary variant on TCP framing, FIFO variant on RTU).      *)
(* trace = [id, variant \in "dict" | "fifo", ev]                            *)
(*  [op |-> "exec", d, uid, tid, fired]     tid/uid as written on the wire  *)
(*  [op |-> "reply", tid, uid, fired]        a well-formed reply arrives     *)
(*  [op |-> "lost", fired]                   connection lost                *)
(*  [op |-> "cancel", d, fired]              the application cancels the    *)
(*                                           deferred of request d: it fails *)
(*                                           at once (code 1004) and never   *)
(*                                           again; its reply, when it comes,*)
(*                                           fires nothing and disturbs      *)
(*                                           nobody (it still takes its turn *)
(*                                           on a serial line)               *)
(*  [op |-> "wrap", to]                      the tid counter is preset      *)
(*                                           (stands for 65535 completed    *)
(*                                           requests in between)           *)
(* fired = << <<deferred, code>> >> observed during the event; code = tid  *)
(* (dict) / unit (fifo) of the reply the deferred got, 1000 connection     *)
(* lost, 1001 not connected.                                               *)
(***************************************************************************)
EXTENDS Naturals, Sequences, FiniteSets, TLC, Json, IOUtils
Traces == JsonDeserialize(IOEnv.TRACE_FILE).traces
VARIABLES tr, i, pending, fifo, connected, firedSet, issued, cancelled, out
vars == <<tr, i, pending, fifo, connected, firedSet, issued, cancelled, out>>
T == Traces[tr]
Seq2Set(s) == {s[k] : k \in 1..Len(s)}
Init == /\ tr \in 1..Len(Traces) /\ i = 1 /\ pending = <<>> /\ fifo = <<>> /\ connected = TRUE
        /\ firedSet = {} /\ issued = {} /\ cancelled = {} /\ out = "run"

Eval(ev) ==
  LET obs == Seq2Set(ev.fired)
      obsD == {x[1] : x \in obs}
      twice == IF \E x \in obs : x[1] \in firedSet THEN {"FiresOnce"} ELSE {}
      dupIn == IF Cardinality(obsD) # Len(ev.fired) THEN {"FiresOnce"} ELSE {}
  IN
  CASE ev.op = "exec" ->
         IF ~connected
         THEN [fail |-> twice \cup (IF obs # {<<ev.d, 1001>>} THEN {"NotConnectedFails"} ELSE {}),
               pending |-> pending, fifo |-> fifo, connected |-> connected, issued |-> issued \cup {ev.d}]
         ELSE [fail |-> twice \cup (IF obs # {} THEN {"FiresOnce"} ELSE {})
                        \cup (IF T.variant = "dict" /\ ev.tid \in DOMAIN pending THEN {"Distinct"} ELSE {})
                        \cup (IF T.variant = "dict" /\ (ev.tid < 0 \/ ev.tid > 65535) THEN {"Distinct"} ELSE {}),
               pending |-> IF T.variant = "dict" /\ ev.tid \notin DOMAIN pending
                           THEN [x \in (DOMAIN pending) \cup {ev.tid} |-> IF x = ev.tid THEN ev.d ELSE pending[x]] ELSE pending,
               fifo |-> IF T.variant = "fifo" THEN Append(fifo, <<ev.d, ev.uid>>) ELSE fifo,
               connected |-> connected, issued |-> issued \cup {ev.d}]
    [] ev.op = "reply" ->
         IF T.variant = "dict"
         THEN LET hit == ev.tid \in DOMAIN pending
                  exp == IF hit /\ pending[ev.tid] \notin cancelled THEN {<<pending[ev.tid], ev.tid>>} ELSE {} IN
              [fail |-> twice \cup dupIn \cup (IF obs # exp THEN {IF hit THEN "Match" ELSE "Unsolicited"} ELSE {}),
               pending |-> IF hit THEN [x \in (DOMAIN pending) \ {ev.tid} |-> pending[x]] ELSE pending,
               fifo |-> fifo, connected |-> connected, issued |-> issued]
         ELSE LET hit == fifo # <<>> /\ Head(fifo)[2] = ev.uid        \* on a serial line the reply answers the oldest request of that unit
                  exp == IF hit /\ Head(fifo)[1] \notin cancelled THEN {<<Head(fifo)[1], ev.uid>>} ELSE {} IN
              [fail |-> twice \cup dupIn \cup (IF obs # exp THEN {IF hit THEN "Match" ELSE "Unsolicited"} ELSE {}),
               pending |-> pending, fifo |-> IF hit THEN Tail(fifo) ELSE fifo, connected |-> connected, issued |-> issued]
    [] ev.op = "lost" ->
         LET exp == IF T.variant = "dict" THEN {<<pending[t], 1000>> : t \in {x \in DOMAIN pending : pending[x] \notin cancelled}}
                    ELSE {<<fifo[k][1], 1000>> : k \in {x \in 1..Len(fifo) : fifo[x][1] \notin cancelled}} IN
         [fail |-> twice \cup dupIn \cup (IF obs # exp THEN {"LossFailsAll"} ELSE {}),
          pending |-> <<>>, fifo |-> <<>>, connected |-> FALSE, issued |-> issued]
    [] ev.op = "cancel" ->
         (* cancelling a request that has already been answered (or failed) does nothing *)
         [fail |-> twice \cup dupIn \cup (IF obs # (IF ev.d \in firedSet THEN {} ELSE {<<ev.d, 1004>>}) THEN {"CancelFailsThatOne"} ELSE {}),
          pending |-> pending, fifo |-> fifo, connected |-> connected, issued |-> issued]
    [] ev.op = "wrap" -> [fail |-> {}, pending |-> pending, fifo |-> fifo, connected |-> connected, issued |-> issued]

Verdict(status, step, clauses, detail) ==
  PrintT("VERDICT " \o ToJson([id |-> T.id, status |-> status, step |-> step, clauses |-> clauses, detail |-> detail]))
Step ==
  /\ out = "run" /\ i <= Len(T.ev)
  /\ LET ev == T.ev[i]
         e == Eval(ev)
         nf == firedSet \cup {x[1] : x \in Seq2Set(ev.fired)}
         last == i = Len(T.ev)
         (* at the end of every history each issued request must have fired (the harness ends histories with all replies or a loss) *)
         ev2 == IF last /\ e.fail = {} /\ nf # e.issued THEN {"Eventually"} ELSE {}
         f == e.fail \cup ev2
     IN /\ IF f # {} THEN Verdict("FAIL", i, f, [pending |-> DOMAIN pending, op |-> ev.op]) /\ out' = "done"
           ELSE IF last THEN Verdict("OK", i, {}, [n |-> i]) /\ out' = "done" ELSE out' = "run"
        /\ pending' = e.pending /\ fifo' = e.fifo /\ connected' = e.connected /\ issued' = e.issued /\ firedSet' = nf
        /\ cancelled' = IF ev.op = "cancel" THEN cancelled \cup {ev.d} ELSE cancelled
  /\ i' = i + 1 /\ UNCHANGED tr
Empty == /\ out = "run" /\ Len(T.ev) = 0 /\ Verdict("OK", 0, {}, [n |-> 0]) /\ out' = "done"
         /\ UNCHANGED <<tr, i, pending, fifo, connected, firedSet, issued, cancelled>>
Spec == Init /\ [][Step \/ Empty]_vars
=============================================================================
