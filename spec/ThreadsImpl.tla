----------------------------- MODULE ThreadsImpl -----------------------------
(***************************************************************************)
(* C15, implementation-shaped, in functional form: the state of one shared *)
(* synchronous client and its caller threads is ONE record, and every step *)
(* of the code is a function from a state to the set of its successors, so *)
(* that the same definitions drive the model checker (ThreadsImplMC) and   *)
(* the trace validator (ThreadsImplTrace, which has to compose steps the   *)
(* implementation does not log).                                           *)
(*                                                                         *)
(* One call of BaseModbusClient.execute:                                   *)
(*   phase A  take the transaction lock, connect if there is no connection *)
(*            (check, open), give the lock back                            *)
(*   phase B  ModbusTransactionManager.execute: take the lock again,       *)
(*            connect check (again, per attempt), send, wait for the reply;*)
(*            no reply -> back-off, same request again (retry_on_empty);   *)
(*            transport error -> connection closed, reconnect, again;      *)
(*            finally give the lock back.                                  *)
(* The peer answers every request it receives, on the connection it was    *)
(* received on; a reply in flight on a connection that has been replaced   *)
(* never arrives.  The environment may leave up to Drops transmissions     *)
(* unanswered or broken.                                                   *)
(*                                                                         *)
(* TDev: ways in which implementations have been seen (or seeded) to get   *)
(* this wrong; TLC must reject each:                                       *)
(*   ConnectOutsideLock, LockReleasedDuringBackoff, LockWaitTimesOut,      *)
(*   CloseRecreatesLock                                                    *)
(***************************************************************************)
EXTENDS Naturals, Sequences, FiniteSets

CONSTANTS NT, K, Drops, TDev
Th == 1..NT
Has(d) == d \in TDev

InitSt == [pc |-> [t \in Th |-> "idle"], lock |-> 0, conn |-> 0, rx |-> <<>>, got |-> [t \in Th |-> <<>>],
           cnt |-> [t \in Th |-> 0], active |-> {}, tries |-> [t \in Th |-> 1], drops |-> Drops, lost |-> {}]

At(s, t, to) == [s EXCEPT !.pc[t] = to]
Fresh(s) == CHOOSE n \in 1..(4 * NT * K + 4) : \A m \in {s.conn} \cup {s.rx[i].ep : i \in 1..Len(s.rx)} : n > m
Take(s, t) ==      \* the ways thread t gets past lock.acquire() in state s
  IF s.lock = 0 \/ s.lock = t THEN {t}                    \* it holds the lock from here on
  ELSE IF Has("LockWaitTimesOut") THEN {s.lock} ELSE {}    \* (deviation) gives up waiting, carries on without it

FAcqA(s, t) == IF s.pc[t] # "idle" \/ s.cnt[t] >= K THEN {}
               ELSE IF Has("ConnectOutsideLock") THEN {At(s, t, "chkA")}
               ELSE {[At(s, t, "chkA") EXCEPT !.lock = l] : l \in Take(s, t)}
FCheckA(s, t) == IF s.pc[t] = "chkA" THEN {At(s, t, IF s.conn = 0 THEN "openA" ELSE "relA")} ELSE {}
FOpenA(s, t) == IF s.pc[t] = "openA" THEN {[At(s, t, "relA") EXCEPT !.conn = Fresh(s)]} ELSE {}
FRelA(s, t) == IF s.pc[t] = "relA" THEN {[At(s, t, "waitB") EXCEPT !.lock = IF s.lock = t THEN 0 ELSE s.lock]} ELSE {}
FAcqB(s, t) == IF s.pc[t] = "waitB" THEN {[At(s, t, "chkB") EXCEPT !.lock = l] : l \in Take(s, t)} ELSE {}
FCheckB(s, t) == IF s.pc[t] = "chkB" THEN {At(s, t, IF s.conn = 0 THEN "openB" ELSE "send")} ELSE {}
FOpenB(s, t) == IF s.pc[t] = "openB" THEN {[At(s, t, "send") EXCEPT !.conn = Fresh(s)]} ELSE {}
FSend(s, t) ==
  IF s.pc[t] # "send" \/ s.conn = 0 THEN {}
  ELSE LET s1 == [At(s, t, "recv") EXCEPT !.active = @ \cup {t}] IN
       {[s1 EXCEPT !.rx = Append(@, [to |-> t, ep |-> s.conn])]}
       \cup (IF s.drops > 0 THEN {[s1 EXCEPT !.drops = @ - 1, !.lost = @ \cup {t}]} ELSE {})     \* never answered
(* a reply travelling on a connection that no longer exists is gone *)
FVanish(s) == IF s.rx # <<>> /\ Head(s.rx).ep # s.conn
              THEN {[s EXCEPT !.rx = Tail(@), !.lost = @ \cup {Head(s.rx).to}]} ELSE {}
FRecv(s, t) ==
  IF s.pc[t] = "recv" /\ s.rx # <<>> /\ Head(s.rx).ep = s.conn
  THEN {[At(s, t, "relB") EXCEPT !.got[t] = Append(@, Head(s.rx).to), !.rx = Tail(@), !.active = @ \ {t}]} ELSE {}
NoReplyComing(s, t) == t \in s.lost /\ ~\E i \in 1..Len(s.rx) : s.rx[i].to = t /\ s.rx[i].ep = s.conn
(* empty read: with a retry left the same request goes out again after the back-off (the transaction keeps the line) *)
FTimeOut(s, t) ==
  IF s.pc[t] # "recv" \/ ~NoReplyComing(s, t) THEN {}
  ELSE LET s1 == [s EXCEPT !.lost = @ \ {t}] IN
       IF s.tries[t] > 0
       THEN {[At(s1, t, IF Has("LockReleasedDuringBackoff") THEN "reacq" ELSE "chkB")
                EXCEPT !.tries[t] = @ - 1, !.lock = IF Has("LockReleasedDuringBackoff") /\ s.lock = t THEN 0 ELSE s.lock]}
       ELSE {[At(s1, t, "relB") EXCEPT !.got[t] = Append(@, 0), !.active = @ \ {t}]}          \* an error object is returned
(* the transport fails under the attempt: the client closes the connection and, with a retry left, reconnects inside the call *)
FFail(s, t) ==
  IF s.pc[t] = "recv" /\ s.drops > 0 /\ s.tries[t] > 0 /\ s.conn # 0
  THEN {[At(s, t, "chkB") EXCEPT !.drops = @ - 1, !.conn = 0, !.tries[t] = @ - 1,
                                !.lock = IF Has("CloseRecreatesLock") THEN 0 ELSE s.lock]}
  ELSE {}
FReacq(s, t) == IF s.pc[t] = "reacq" /\ s.lock = 0 THEN {[At(s, t, "chkB") EXCEPT !.lock = t]} ELSE {}
FRelB(s, t) == IF s.pc[t] = "relB"
               THEN {[At(s, t, "idle") EXCEPT !.lock = IF s.lock = t THEN 0 ELSE s.lock, !.cnt[t] = @ + 1, !.tries[t] = 1]}
               ELSE {}

Steps(s) == UNION {FAcqA(s, t) \cup FCheckA(s, t) \cup FOpenA(s, t) \cup FRelA(s, t) \cup FAcqB(s, t) \cup FCheckB(s, t)
                   \cup FOpenB(s, t) \cup FSend(s, t) \cup FRecv(s, t) \cup FTimeOut(s, t) \cup FFail(s, t) \cup FReacq(s, t)
                   \cup FRelB(s, t) : t \in Th} \cup FVanish(s)
DoneSt(s) == \A t \in Th : s.cnt[t] = K /\ s.pc[t] = "idle"

(* the statement of C15 *)
MutexSt(s) == Cardinality(s.active) <= 1
OwnReplySt(s) == \A t \in Th : \A k \in 1..Len(s.got[t]) : s.got[t][k] = t      \* (0 = an error object; with Drops <= retries none occurs)
NoLossSt(s) == DoneSt(s) => \A t \in Th : Len(s.got[t]) = K
=============================================================================
