------------------------------ MODULE ServerMC ------------------------------
(***************************************************************************)
(* Exhaustive model of a server front-end with two connections, hosted     *)
(* unit sets {1}, {1,2}, {0,1}, all flag combinations, requests addressed  *)
(* to units 0..3 (read, write, illegal address, unknown function, a        *)
(* non-data-access request), delivered one frame at a time or as a partial *)
(* frame completed later (the partial frame lives in per-connection        *)
(* framing state), in every interleaving of the two connections.           *)
(*                                                                         *)
(* SDev (deviations that must be rejected):                                *)
(*   AnswersBroadcast  : a broadcast request gets a response               *)
(*   BroadcastFirstOnly: a broadcast write reaches only one unit           *)
(*   WrongUnit         : a request for unit 2 is executed on unit 1        *)
(*   SharedFramer      : one framing buffer for all connections            *)
(*   NoTid             : the response carries transaction id 0             *)
(*   ResetStaysOn      : after one idle time-out of recv() the handler     *)
(*                       clears its framing state after every read (the    *)
(*                       loop-local reset flag is never lowered), so a     *)
(*                       request arriving in two reads is never served     *)
(***************************************************************************)
EXTENDS Server, TLC

CONSTANTS SDev
VARIABLES cfg, tab, out, pend, fedpart, last, rf
vars == <<cfg, tab, out, pend, fedpart, last, rf>>

Conns == {1, 2}
Blk1(v) == [kind |-> "seq", start |-> 0, size |-> 1, def |-> 0, ov |-> [a \in {0} |-> v], fail |-> FALSE]
Ctx0 == [zero |-> TRUE, map |-> [c |-> "b", d |-> "b", h |-> "r", i |-> "r"], blocks |-> [b |-> Blk1(0), r |-> Blk1(0)]]
Cfgs == {[single |-> s, hosted |-> h, broadcast |-> b, ignore |-> i] :
           s \in BOOLEAN, h \in {{1}, {1, 2}, {0, 1}}, b \in BOOLEAN, i \in BOOLEAN}
Pdus == { <<3, 0, 0, 0, 1>>, <<6, 0, 0, 0, 1>>, <<6, 0, 0, 0, 0>>, <<6, 0, 5, 0, 1>>, <<9>>, <<17>> }
Frames == {[uid |-> u, tid |-> t, pid |-> 0, pdu |-> p] : u \in 0..3, t \in {7}, p \in Pdus}
PartFrames == {f \in Frames : f.pdu \in {<<3, 0, 0, 0, 1>>, <<6, 0, 0, 0, 1>>}}
None == [uid |-> 99, tid |-> 0, pid |-> 0, pdu |-> <<>>]

Init == /\ cfg \in Cfgs
        /\ tab = IF cfg.single THEN [u \in {0} |-> Ctx0] ELSE [u \in cfg.hosted |-> Ctx0]
        /\ out = [c \in Conns |-> <<>>]
        /\ pend = [c \in Conns |-> None]
        /\ fedpart = [c \in Conns |-> None]   \* ghost: the partial frame the environment really sent on c
        /\ last = [c |-> 0, f |-> None, before |-> tab, n |-> 0]
        /\ rf = [c \in Conns |-> FALSE]           \* the serving loop's "reset the frame after this read" flag

(* the front-end as implemented (with deviations) *)
Handle(c, f) ==
  LET f2 == IF "WrongUnit" \in SDev /\ f.uid = 2 /\ 1 \in DOMAIN tab THEN [f EXCEPT !.uid = 1] ELSE f
      os == Serve(cfg, tab, f2)
  IN \E o \in os :
       LET r0 == IF o.rsp = <<>> THEN <<>> ELSE <<[o.rsp[1] EXCEPT !.uid = f.uid, !.tid = IF "NoTid" \in SDev THEN 0 ELSE f.tid]>>
           r == IF "AnswersBroadcast" \in SDev /\ Target(cfg, f.uid) = "broadcast" THEN Rsp(f, <<f.pdu[1]>> \o AnyData) ELSE r0
           t2 == IF "BroadcastFirstOnly" \in SDev /\ Target(cfg, f.uid) = "broadcast"
                 THEN LET u0 == CHOOSE u \in DOMAIN tab : TRUE IN [tab EXCEPT ![u0] = o.tab[u0]]
                 ELSE o.tab
       IN /\ out' = [out EXCEPT ![c] = @ \o r]
          /\ tab' = t2
          /\ last' = [c |-> c, f |-> f, before |-> tab, n |-> 1 - last.n]

RecvWhole(c, f) == fedpart[c] = None /\ Handle(c, f) /\ UNCHANGED <<cfg, pend, fedpart, rf>>
Idle(c) ==         \* recv() times out while no frame is partly received: the flag is raised, the (empty) frame reset, the flag lowered
  /\ fedpart[c] = None
  /\ rf' = [rf EXCEPT ![c] = ("ResetStaysOn" \in SDev)]
  /\ UNCHANGED <<cfg, tab, out, pend, fedpart, last>>
RecvPart(c, f) ==  \* the first bytes of frame f arrive
  /\ fedpart[c] = None
  /\ fedpart' = [fedpart EXCEPT ![c] = f]
  /\ pend' = IF rf[c] THEN [pend EXCEPT ![c] = None]       \* (a raised flag wipes what this read stored)
             ELSE IF "SharedFramer" \in SDev THEN [d \in Conns |-> f] ELSE [pend EXCEPT ![c] = f]
  /\ UNCHANGED <<cfg, tab, out, last, rf>>
RecvRest(c) ==     \* the rest arrives: the frame completed is the one this connection's framing state holds
  /\ fedpart[c] # None
  /\ IF pend[c] = None THEN UNCHANGED <<tab, out, last>>      \* the framing state no longer holds the first part: nothing is served
     ELSE Handle(c, pend[c])
  /\ pend' = IF "SharedFramer" \in SDev THEN [d \in Conns |-> None] ELSE [pend EXCEPT ![c] = None]
  /\ fedpart' = [fedpart EXCEPT ![c] = None]
  /\ UNCHANGED <<cfg, rf>>
Bound == \A c \in Conns : Len(out[c]) <= 2
Next == Bound /\ \E c \in Conns : (\E f \in Frames : RecvWhole(c, f)) \/ (\E f \in PartFrames : RecvPart(c, f)) \/ RecvRest(c) \/ Idle(c)
Spec == Init /\ [][Next]_vars

(* ---- properties (over cfg, tab, ghost last/acc and the observable out) ---- *)
Hosted(u) == cfg.single \/ u \in cfg.hosted
IsBroadcast(f) == cfg.broadcast /\ f.uid = 0
(* C09: the response to a request goes to the connection it came from, carries its ids and function code; *)
(*      silence for broadcast and for ignored missing units; nothing else is ever written                  *)
C09Step ==
  [][ \A c \in Conns :
        IF last'.c # c \/ last' = last THEN out'[c] = out[c]
        ELSE LET f == last'.f new == SubSeq(out'[c], Len(out[c]) + 1, Len(out'[c])) IN
             /\ Len(out'[c]) >= Len(out[c]) /\ SubSeq(out'[c], 1, Len(out[c])) = out[c]
             /\ IF IsBroadcast(f) THEN new = <<>>
                ELSE IF ~Hosted(f.uid) THEN (new = <<>> \/ (~cfg.ignore /\ Len(new) = 1 /\ new[1].tid = f.tid /\ new[1].uid = f.uid
                                                           /\ new[1].pdu \in {<<(f.pdu[1] + 128) % 256, 10>>, <<(f.pdu[1] + 128) % 256, 11>>}))
                ELSE Len(new) = 1 /\ new[1].tid = f.tid /\ new[1].uid = f.uid
                     /\ new[1].pdu[1] \in {f.pdu[1], (f.pdu[1] + 128) % 256} ]_vars
(* C09: a request whose last bytes arrive is served at that moment (it is neither forgotten nor postponed) *)
C09Served == [][ \A c \in Conns : (fedpart[c] # None /\ fedpart'[c] = None) => (last' # last /\ last'.c = c) ]_vars
(* C10: only the addressed unit changes; a broadcast write reaches every hosted unit exactly once *)
C10Step ==
  [][ last' # last =>
        LET f == last'.f IN
        /\ \A u \in DOMAIN tab : tab'[u] # tab[u] =>
              (IF IsBroadcast(f) THEN TRUE ELSE (Hosted(f.uid) /\ u = Key(cfg, f.uid)))
        /\ (IsBroadcast(f) /\ Known(f.pdu)) => \A u \in DOMAIN tab : tab'[u] = Exec(tab[u], ParseReq(f.pdu)).ctx
        /\ (~IsBroadcast(f) /\ Hosted(f.uid) /\ Known(f.pdu)) =>
              tab'[Key(cfg, f.uid)] = Exec(tab[Key(cfg, f.uid)], ParseReq(f.pdu)).ctx
        /\ (~IsBroadcast(f) /\ ~Hosted(f.uid)) => tab' = tab ]_vars
(* C17 (isolation): the frame a connection completes is the frame that connection started *)
Isolation == [][ \A c \in Conns : (fedpart[c] # None /\ fedpart'[c] = None) => (last' # last /\ last'.c = c /\ last'.f = fedpart[c]) ]_vars
View == <<cfg, tab, pend, fedpart, rf, [c \in Conns |-> Len(out[c])]>>
=============================================================================
