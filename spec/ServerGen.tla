------------------------------- MODULE ServerGen -------------------------------
(***************************************************************************)
(* Behaviour generation for the server engine: random behaviours of        *)
(* ServerMC (tlc -simulate) with a history of the environment's actions    *)
(*   whole c f | part c f | rest c | idle c (recv time-out, no partial frame)*)
(* The harness replays each history into every real front-end: frames      *)
(* whole, or split in two reads with the other connection's traffic in     *)
(* between, and ServerTrace judges every event.                            *)
(***************************************************************************)
EXTENDS ServerMC, Json
CONSTANT GenDepth
VARIABLE hist
gvars == <<cfg, tab, out, pend, fedpart, last, rf, hist>>
GInit == Init /\ hist = <<>>
GNext == /\ Len(hist) < GenDepth
         /\ \E c \in Conns :
              \/ \E f \in Frames : RecvWhole(c, f) /\ hist' = Append(hist, [op |-> "whole", c |-> c, uid |-> f.uid, pdu |-> f.pdu])
              \/ \E f \in PartFrames : RecvPart(c, f) /\ hist' = Append(hist, [op |-> "part", c |-> c, uid |-> f.uid, pdu |-> f.pdu])
              \/ RecvRest(c) /\ hist' = Append(hist, [op |-> "rest", c |-> c, uid |-> 0, pdu |-> <<>>])
              \/ Idle(c) /\ hist' = Append(hist, [op |-> "idle", c |-> c, uid |-> 0, pdu |-> <<>>])
GSpec == GInit /\ [][GNext]_gvars
Export == Len(hist) = GenDepth =>
            PrintT("HIST " \o ToJson([single |-> cfg.single, hosted |-> cfg.hosted, broadcast |-> cfg.broadcast, ignore |-> cfg.ignore, hist |-> hist]))
=============================================================================
