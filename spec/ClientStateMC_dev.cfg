SPECIFICATION SSpec
CONSTANTS
  SDev = {"NoSettle"}
INVARIANT STypeOK
PROPERTY RtuSendsFromIdle
