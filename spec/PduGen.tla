------------------------------- MODULE PduGen -------------------------------
(***************************************************************************)
(* Behaviour generation for C01/C02/C14: for every canonical message in    *)
(* the input file TLC computes the PDU the standard prescribes             *)
(* (ModbusPDU!Encode) and checks the specification's own round trip        *)
(* Decode(Encode(m)) = m (up to bit padding) and the 253-byte bound.       *)
(* Output: one VECTOR line per message, consumed by the harness, which     *)
(* feeds these bytes to the real decoders.                                 *)
(***************************************************************************)
EXTENDS ModbusPDU, TLC, Json, IOUtils

Msgs == JsonDeserialize(IOEnv.TRACE_FILE).traces
VARIABLES k, out
vars == <<k, out>>
Init == k \in 1..Len(Msgs) /\ out = "run"
Next == /\ out = "run"
        /\ LET m == Msgs[k].m
               b == Encode(m)
               d == Decode(Msgs[k].dir, b)
               ok == IF Expressible(m) THEN (IF Canon(d) = Canon(m) THEN 1 ELSE 0) ELSE 2
           IN PrintT("VECTOR " \o ToJson([id |-> Msgs[k].id, bytes |-> b, rt |-> ok, len |-> Len(b)]))
        /\ out' = "done" /\ UNCHANGED k
Spec == Init /\ [][Next]_vars
=============================================================================
