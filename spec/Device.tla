------------------------------- MODULE Device -------------------------------
(***************************************************************************)
(* The diagnostic state of a server process and the requests that read and *)
(* change it: Diagnostics (FC 8) sub-functions, Read Exception Status      *)
(* (FC 7), Get Comm Event Counter (FC 11), Get Comm Event Log (FC 12).     *)
(* Growth of the specification beyond the listed properties: the server    *)
(* engine (Server.tla) leaves the data of these responses unconstrained;   *)
(* this module says what they are, as a state machine over                 *)
(*                                                                         *)
(*   dev = [cnt    : 1..9 -> Nat     eight diagnostic counters + the comm  *)
(*                                   event counter (index 9),              *)
(*          diag   : 0..15 -> BOOLEAN  the diagnostic register,            *)
(*          listen : BOOLEAN           listen-only mode entered,           *)
(*          delim  : Byte              ASCII input delimiter,              *)
(*          log    : Seq(Byte)]        comm event log, newest first        *)
(*                                                                         *)
(* It is written to be bound to pymodbus/device.py (ModbusControlBlock, a  *)
(* process-wide singleton) and the execute() methods of diag_message.py /  *)
(* other_message.py, so it models what that code does; where that differs  *)
(* from the Modbus documents the difference is named here:                 *)
(*  * RestartKeepsState   sub-function 1 answers but clears nothing and    *)
(*                        does not leave listen-only mode;                 *)
(*  * ListenOnlyIsAFlag   on the threaded and asyncio front-ends the       *)
(*                        server goes on serving after sub-function 4      *)
(*                        (only the reply to the request itself is         *)
(*                        suppressed); the flag is only stored;            *)
(*  * TwistedDeafForever  the Twisted front-ends do honour the flag - they *)
(*                        drop every byte received while it is set, which  *)
(*                        includes Restart Communications Option, the only *)
(*                        request that could clear it: once set (by any    *)
(*                        connection: the control block is process-wide)   *)
(*                        such a server never answers again;               *)
(*  * TwistedCountsBusMessages  the Twisted front-ends add one to the bus   *)
(*                        message counter for every response they send     *)
(*                        (after executing the request, so a response      *)
(*                        reporting that counter shows the value before);  *)
(*                        the threaded and asyncio front-ends never count; *)
(*  * DiagRegisterLowByteFirst  sub-function 2 sends bits 0-7 in the first *)
(*                        data byte;                                       *)
(*  * IopIsCharOverrun    sub-function 0x13 reports (and 0x14 clears) the  *)
(*                        character-overrun counter;                       *)
(*  * ClearAlsoClearsLog  sub-function 0x0A also empties the event log.    *)
(* Apart from TwistedCountsBusMessages the counters are only advanced by    *)
(* the hosting application through the control block (environment actions). *)
(* The exception status byte (FC 7) has one bit per diagnostic counter      *)
(* 1..8: bit k-1 is set iff counter k is non-zero (device specific; this    *)
(* is pymodbus' choice).  The event counter is not part of it.               *)
(***************************************************************************)
EXTENDS Bytes

CONSTANTS LogCap,      \* 64
          DDev         \* deviations of a hypothetical implementation (non-vacuity: TLC must reject each)

NCnt == 9
EventCnt == 9
OverrunCnt == 8
InitDev == [cnt |-> [k \in 1..NCnt |-> 0], diag |-> [b \in 0..15 |-> FALSE], listen |-> FALSE, delim |-> 13, log |-> <<>>]

(* ---- the hosting application (environment) ------------------------------ *)
IncCounter(d, k, n) == [d EXCEPT !.cnt[k] = @ + n]
AddEvent(d, e) == [d EXCEPT !.log = Take(<<e>> \o @, IF "LogUnbounded" \in DDev THEN LogCap + 1 ELSE LogCap),
                            !.cnt[EventCnt] = @ + 1]
SetDiag(d, b, v) == [d EXCEPT !.diag[b] = v]

(* ---- observations -------------------------------------------------------- *)
B2N(x) == IF x THEN 1 ELSE 0
DiagBytes(d) == << SumSeq([b \in 1..8 |-> B2N(d.diag[b - 1]) * Pow2(b - 1)]),
                   SumSeq([b \in 1..8 |-> B2N(d.diag[b + 7]) * Pow2(b - 1)]) >>
Summary(d) == SumSeq([k \in 1..8 |-> IF d.cnt[k] # 0 THEN Pow2(k - 1) ELSE 0])
Clear(d) == [d EXCEPT !.cnt = [k \in 1..NCnt |-> 0], !.diag = [b \in 0..15 |-> FALSE],
                      !.log = IF "ClearKeepsLog" \in DDev THEN @ ELSE <<>>]

(* counter read by sub-functions 0x0B..0x13 *)
CntOf(sub) == IF sub = 19 THEN OverrunCnt ELSE sub - 10

(* ---- requests ------------------------------------------------------------ *)
(* which request PDUs this module judges (everything else is left to the other engines) *)
InRange(d) == \A k \in 1..NCnt : d.cnt[k] <= 65535        \* a counter beyond 16 bits has no encoding: the data are not judged
Shape(pdu) ==
  /\ Len(pdu) >= 1
  /\ CASE pdu[1] = 8 ->
            /\ Len(pdu) >= 5 /\ (Len(pdu) - 3) % 2 = 0
            /\ LET sub == U16At(pdu, 2) IN
               \/ sub = 0
               \/ sub = 1 /\ Len(pdu) = 5 /\ Drop(pdu, 3) \in {<<0, 0>>, <<255, 0>>}
               \/ sub \in ({2, 3, 4} \cup (10..20)) /\ Len(pdu) = 5
       [] pdu[1] \in {7, 11, 12} -> Len(pdu) = 1
       [] OTHER -> FALSE

Handled(d, pdu) == InRange(d) /\ Shape(pdu)
None == <<>>
(* DevExec(d, pdu) = [rsp |-> response PDU or None (nothing is sent), dev |-> next state] *)
DevExec(d, pdu) ==
  LET same(r) == [rsp |-> r, dev |-> d] IN
  CASE pdu[1] = 7 ->
         same(<<7, Summary(d)>>)
    [] pdu[1] = 11 -> same(<<11, 0, 0>> \o U16(d.cnt[EventCnt]))
    [] pdu[1] = 12 -> same(<<12, 6 + Len(d.log), 0, 0>> \o U16(d.cnt[EventCnt]) \o U16(d.cnt[1]) \o d.log)
    [] pdu[1] = 8 ->
         LET sub == U16At(pdu, 2)
             data == Drop(pdu, 3)
             echo == pdu
             hdr == <<8>> \o U16(sub)
         IN
         CASE sub = 0 -> same(echo)
           [] sub = 1 -> same(echo)                                 \* RestartKeepsState
           [] sub = 2 -> same(hdr \o DiagBytes(d))
           [] sub = 3 -> [rsp |-> echo, dev |-> [d EXCEPT !.delim = data[1]]]
           [] sub = 4 -> [rsp |-> IF "ListenAnswers" \in DDev THEN echo ELSE None, dev |-> [d EXCEPT !.listen = TRUE]]
           [] sub = 10 -> [rsp |-> echo, dev |-> Clear(d)]
           [] sub \in 11..19 -> same(hdr \o U16(d.cnt[CntOf(sub)] + (IF "CounterOffByOne" \in DDev THEN 1 ELSE 0)))
           [] sub = 20 -> [rsp |-> echo, dev |-> [d EXCEPT !.cnt[OverrunCnt] = 0]]

(* a front-end serving the request: DevExec, then the front-end's own bookkeeping *)
Counting(fe) == fe \in {"twTcp", "twUdp"}
Deaf(d, fe) == Counting(fe) /\ d.listen                      \* TwistedDeafForever
Served(d, pdu, fe) ==
  IF Deaf(d, fe) THEN [rsp |-> None, dev |-> d]
  ELSE LET r == DevExec(d, pdu) IN
       [rsp |-> r.rsp, dev |-> IF Counting(fe) /\ r.rsp # None THEN [r.dev EXCEPT !.cnt[1] = (@ + 1) % 65536] ELSE r.dev]
                                                                      \* (the counters are 16 bit wide: the send counter wraps)
=============================================================================
