----------------------------- MODULE MsgObjectMC -----------------------------
(***************************************************************************)
(* C02 (spec side): one message object under every history of encode()    *)
(* and decode(bytes) calls.  `fields' is what the object carries, `wire'   *)
(* the bytes of its last encode, `n' a call counter some implementations   *)
(* were seen to leak into the output.  Deviations (constant Dev):          *)
(*   EncCountsCumulatively : encode() bumps a counter that is part of the  *)
(*                           output (device-identification object count)   *)
(*   DecAppends            : decode() appends to the register list         *)
(* With Dev = {} all properties hold; each deviation must be rejected.     *)
(***************************************************************************)
EXTENDS ModbusPDU, TLC

CONSTANT MDev
VARIABLES fields, wire, n, lastop
vars == <<fields, wire, n, lastop>>

Pool == { [t |-> "ReadWriteRsp", regs |-> <<10, 11>>], [t |-> "ReadWriteRsp", regs |-> <<65535>>],
          [t |-> "ReadCoilsRsp", bits |-> <<1, 0, 1>>], [t |-> "ReadCoilsRsp", bits |-> <<0, 0, 0, 0, 0, 0, 0, 0, 1>>],
          [t |-> "DevIdRsp", code |-> 1, conf |-> 131, more |-> 0, next |-> 0, objs |-> <<[id |-> 0, val |-> <<65>>], [id |-> 1, val |-> <<>>]>>],
          [t |-> "DevIdRsp", code |-> 1, conf |-> 131, more |-> 255, next |-> 2, objs |-> <<[id |-> 0, val |-> <<66, 67>>]>>],
          [t |-> "WriteRegsReq", addr |-> 7, regs |-> <<1, 2, 3>>], [t |-> "WriteRegsReq", addr |-> 65535, regs |-> <<0>>],
          [t |-> "DiagRsp", sub |-> 0, data |-> <<1, 2>>], [t |-> "DiagRsp", sub |-> 0, data |-> <<9>>] }
DirOf(m) == IF m.t = "WriteRegsReq" THEN "req" ELSE "rsp"

EncOut(m, k) ==    \* bytes produced by the k-th encode call since construction / last decode
  IF "EncCountsCumulatively" \in MDev /\ m.t = "DevIdRsp"
  THEN [Encode(m) EXCEPT ![7] = (Len(m.objs) * k) % 256]
  ELSE Encode(m)

Init == fields \in Pool /\ wire = <<>> /\ n = 0 /\ lastop = "new"
Enc == /\ wire' = EncOut(fields, n + 1) /\ n' = IF n < 3 THEN n + 1 ELSE n
       /\ lastop' = "enc" /\ UNCHANGED fields
Dec(m2) == /\ m2.t = fields.t
           /\ fields' = IF "DecAppends" \in MDev /\ m2.t = "ReadWriteRsp"
                        THEN [m2 EXCEPT !.regs = IF Len(fields.regs) < 4 THEN fields.regs \o m2.regs ELSE m2.regs]
                        ELSE Canon(Decode(DirOf(m2), Encode(m2)))
           /\ n' = 0 /\ lastop' = "dec" /\ UNCHANGED wire
Next == Enc \/ \E m2 \in Pool : Dec(m2)
Spec == Init /\ [][Next]_vars

EncPure == [][lastop' = "enc" => fields' = fields]_vars
EncDeterministic == [][(lastop = "enc" /\ lastop' = "enc") => wire' = wire]_vars
DecFresh == [][lastop' = "dec" => \E m2 \in Pool : fields' = Canon(m2)]_vars
RoundTrip == lastop = "enc" => Canon(Decode(DirOf(fields), wire)) = Canon(fields)
FixedPoint == lastop = "enc" => Encode(Canon(Decode(DirOf(fields), wire))) = wire
=============================================================================
