SPECIFICATION SSpec
CONSTANTS
  SDev = {}
INVARIANT STypeOK
INVARIANT ReturnsComplete
INVARIANT NeverTurnaroundOrError
PROPERTY LabelIsState
PROPERTY SilentKeeps
PROPERTY RtuSendsFromIdle
PROPERTY WaitingOnlyAfterSending
PROPERTY ProcessingOnlyAfterSend
