-------------------------- MODULE ClientStateTrace --------------------------
(***************************************************************************)
(* Trace validation of the client's transaction state (ClientState.tla):   *)
(* the assignments to client.state recorded during every execute() call of *)
(* the C08 / C13 histories must be a walk of the state machine, from the   *)
(* state the call found to "fin" (the call returned) or "raised".          *)
(*                                                                         *)
(* trace = [id, kind, txns];  txn = [s0, states << value >>, how 1/0       *)
(*          (1 = execute() returned, 0 = raised)]                          *)
(* A rejection is reported as a divergence of the model (the state         *)
(* variable is not part of a listed property), naming the assignment that  *)
(* no step explains.                                                       *)
(***************************************************************************)
EXTENDS ClientState, TLC, Json, IOUtils

Traces == JsonDeserialize(IOEnv.TRACE_FILE).traces
VARIABLES tr, i, out
vars == <<tr, i, out>>
T == Traces[tr]
Init == tr \in 1..Len(Traces) /\ i = 1 /\ out = "run"
IsRtu == T.kind = "rtu"

Verdict(status, step, clauses, detail) ==
  PrintT("VERDICT " \o ToJson([id |-> T.id, status |-> status, step |-> step, clauses |-> clauses, detail |-> detail]))
Step ==
  /\ out = "run" /\ i <= Len(T.txns)
  /\ LET x == T.txns[i]
         how == IF x.how = 1 THEN "returned" ELSE "raised"
         ok == Accepts(IsRtu, x.s0, x.states, how)
     IN IF ~ok THEN Verdict("FAIL", i, {"StateWalk"}, [s0 |-> x.s0, states |-> x.states, how |-> how,
                                                       stuck |-> StuckAt(IsRtu, x.s0, x.states)]) /\ out' = "done"
        ELSE IF i = Len(T.txns) THEN Verdict("OK", i, {}, [n |-> i]) /\ out' = "done" ELSE out' = "run"
  /\ i' = i + 1 /\ UNCHANGED tr
Spec == Init /\ [][Step]_vars
=============================================================================
