---------------------------- MODULE PayloadTrace ----------------------------
(***************************************************************************)
(* Trace validation for C19: what the real BinaryPayloadBuilder and        *)
(* BinaryPayloadDecoder did with a sequence of typed values is checked     *)
(* event by event against Payload!Layout / Registers / Unlayout.  One      *)
(* initial state per recorded trace; a verdict is printed when the trace   *)
(* ends or at the first failing clause.                                    *)
(*                                                                         *)
(* trace = [id, bo, wo |-> "big" | "little", ev |-> <<event, ...>>]          *)
(* event = [op |-> "add", type, img |-> canonical image handed to add_*,    *)
(*                 out |-> bytes this add appended to to_string(), err]     *)
(*       | [op |-> "regs", regs |-> to_registers(), all |-> to_string(), err]*)
(*       | [op |-> "dec", via |-> "bytes" | "regs", type, size,             *)
(*                 got |-> canonical image of the value decode_* returned,  *)
(*                 ptr_before, ptr_after, err]                              *)
(*       | [op |-> "rawdec", src |-> the bytes the decoder was created over,*)
(*                 type, size, got, ptr_before, ptr_after, err]             *)
(* err = "" or the name of the exception the call raised (then out / regs / *)
(* got are empty and the clause fails on its own).                          *)
(*                                                                         *)
(* A decoder is created on the first dec event and whenever `via' changes:  *)
(* over to_string() for "bytes", over fromRegisters(to_registers()) for     *)
(* "regs".  The model decodes its own byte string (buf, resp. the bytes of  *)
(* Registers(buf)) at its own pointer; the recorded pointer is only judged  *)
(* by clause Pointer.                                                       *)
(*                                                                         *)
(* Clauses: AddLayout   the bytes appended by add_* are Layout(value)       *)
(*          Registers   to_registers() = Registers(payload)                 *)
(*          DecodeValue decode_* returns Unlayout(bytes at the pointer)     *)
(*          Pointer     the decoder pointer advances by the size decoded    *)
(*          RoundTrip   the k-th decoded value is the k-th added value      *)
(***************************************************************************)
EXTENDS Payload, TLC, Json, IOUtils

TraceData == JsonDeserialize(IOEnv.TRACE_FILE)
Traces == TraceData.traces

VARIABLES tr, i,
          buf,      \* model builder: concatenation of the layouts of the added values
          exp,      \* decode results that recover the added values, in order
          via,      \* transport of the decoder in use ("none": no decoder yet)
          p, k,     \* model decoder: pointer, number of values decoded
          out
vars == <<tr, i, buf, exp, via, p, k, out>>

T == Traces[tr]

Init == /\ tr \in 1..Len(Traces)
        /\ i = 1
        /\ buf = <<>> /\ exp = <<>> /\ via = "none" /\ p = 0 /\ k = 0
        /\ out = "run"

Verdict(status, step, clauses, detail) ==
  PrintT("VERDICT " \o ToJson([id |-> T.id, status |-> status, step |-> step,
                               clauses |-> clauses, detail |-> detail]))

(* events the clauses can be evaluated on (anything else is a harness error, never a verdict) *)
Judged(ev) ==
  /\ T.bo \in Orders /\ T.wo \in Orders
  /\ CASE ev.op = "add" -> WellTyped(ev.type, ev.img)
       [] ev.op = "regs" -> TRUE
       [] ev.op = "dec" -> /\ ev.via \in {"bytes", "regs"} /\ ev.type \in Types
                           /\ ev.size = DecSize(ev.type, ev.size)
                           /\ ~(via \notin {"none", ev.via} /\ k # Len(exp))     \* previous decoder was read to the end
       [] ev.op = "rawdec" -> /\ ev.type \in Types /\ ev.size = DecSize(ev.type, ev.size) /\ ev.size >= 0
                              /\ ev.ptr_before >= 0 /\ ev.ptr_before + DecSize(ev.type, ev.size) <= Len(ev.src)
       [] OTHER -> FALSE

Src(v) == IF v = "bytes" THEN buf ELSE RegBytes(Registers(buf))

Step ==
  /\ out = "run"
  /\ i <= Len(T.ev)
  /\ LET ev == T.ev[i]
         last == i = Len(T.ev)
     IN
     IF ~Judged(ev)
     THEN /\ Verdict("UNJUDGED", i, {}, [ev |-> ev])
          /\ out' = "done" /\ UNCHANGED <<buf, exp, via, p, k>>
     ELSE
       CASE ev.op = "add" ->
              LET lay == Layout(ev.type, ev.img, T.bo, T.wo) IN
              IF ev.out # lay
              THEN /\ Verdict("FAIL", i, {"AddLayout"},
                              [op |-> "add", type |-> ev.type, img |-> ev.img, out |-> ev.out,
                               expected |-> lay, err |-> ev.err])
                   /\ out' = "done" /\ UNCHANGED <<buf, exp, via, p, k>>
              ELSE /\ buf' = buf \o lay
                   /\ exp' = exp \o Items(ev.type, ev.img)
                   /\ via' = "none" /\ p' = 0 /\ k' = 0
                   /\ IF last THEN Verdict("OK", i, {}, [n |-> i]) /\ out' = "done" ELSE out' = "run"
         [] ev.op = "regs" ->
              LET f == (IF ev.all # buf THEN {"AddLayout"} ELSE {})
                       \cup (IF ev.regs # Registers(buf) THEN {"Registers"} ELSE {})
              IN
              /\ UNCHANGED <<buf, exp, via, p, k>>
              /\ IF f # {}
                 THEN /\ Verdict("FAIL", i, f, [op |-> "regs", regs |-> ev.regs, all |-> ev.all,
                                                expected_regs |-> Registers(buf), expected_all |-> buf,
                                                err |-> ev.err])
                      /\ out' = "done"
                 ELSE IF last /\ via # "none" /\ k # Len(exp)
                      THEN Verdict("UNJUDGED", i, {}, [why |-> "decoder not read to the end"]) /\ out' = "done"
                      ELSE IF last THEN Verdict("OK", i, {}, [n |-> i]) /\ out' = "done" ELSE out' = "run"
         [] ev.op = "dec" ->
              LET fresh == ev.via # via
                  p0 == IF fresh THEN 0 ELSE p
                  k0 == IF fresh THEN 0 ELSE k
                  src == Src(ev.via)
                  n == DecSize(ev.type, ev.size)
                  inrange == p0 + n <= Len(src)
                  want == IF inrange THEN Unlayout(ev.type, Slice(src, p0 + 1, n), T.bo, T.wo) ELSE <<>>
                  f == (IF ev.ptr_before >= 0 /\ ev.ptr_after >= 0 /\ (ev.ptr_before # p0 \/ ev.ptr_after # p0 + n)
                        THEN {"Pointer"} ELSE {})      \* (-1: the decoder exposes no read position; the values still decide)
                       \cup (IF ~inrange \/ ev.got # want THEN {"DecodeValue"} ELSE {})
                       \cup (IF k0 + 1 > Len(exp) \/ (k0 + 1 <= Len(exp) /\ <<ev.type, ev.got>> # exp[k0 + 1])
                             THEN {"RoundTrip"} ELSE {})
              IN
              IF f # {}
              THEN /\ Verdict("FAIL", i, f,
                              [op |-> "dec", via |-> ev.via, type |-> ev.type, got |-> ev.got, expected |-> want,
                               added |-> IF k0 + 1 <= Len(exp) THEN exp[k0 + 1] ELSE <<>>,
                               ptr_before |-> ev.ptr_before, ptr_after |-> ev.ptr_after,
                               expected_ptr |-> <<p0, p0 + n>>, err |-> ev.err])
                   /\ out' = "done" /\ UNCHANGED <<buf, exp, via, p, k>>
              ELSE /\ via' = ev.via /\ p' = p0 + n /\ k' = k0 + 1
                   /\ UNCHANGED <<buf, exp>>
                   /\ IF last /\ k0 + 1 # Len(exp)
                      THEN Verdict("UNJUDGED", i, {}, [why |-> "decoder not read to the end"]) /\ out' = "done"
                      ELSE IF last THEN Verdict("OK", i, {}, [n |-> i]) /\ out' = "done" ELSE out' = "run"
         [] ev.op = "rawdec" ->
              (* a decoder over raw bytes the caller supplied (traces recorded from the repository's own tests): *)
              (* self-contained, the model builder plays no part                                                   *)
              LET n == DecSize(ev.type, ev.size)
                  want == Unlayout(ev.type, Slice(ev.src, ev.ptr_before + 1, n), T.bo, T.wo)
                  f == (IF ev.ptr_after # ev.ptr_before + n THEN {"Pointer"} ELSE {})
                       \cup (IF ev.got # want THEN {"DecodeValue"} ELSE {})
              IN
              /\ UNCHANGED <<buf, exp, via, p, k>>
              /\ IF f # {}
                 THEN Verdict("FAIL", i, f, [op |-> "rawdec", type |-> ev.type, got |-> ev.got, expected |-> want,
                                             ptr_before |-> ev.ptr_before, ptr_after |-> ev.ptr_after, err |-> ev.err]) /\ out' = "done"
                 ELSE IF last THEN Verdict("OK", i, {}, [n |-> i]) /\ out' = "done" ELSE out' = "run"
  /\ i' = i + 1
  /\ UNCHANGED tr

Empty == /\ out = "run" /\ Len(T.ev) = 0
         /\ Verdict("OK", 0, {}, [n |-> 0]) /\ out' = "done" /\ UNCHANGED <<tr, i, buf, exp, via, p, k>>

Next == Step \/ Empty
Spec == Init /\ [][Next]_vars
=============================================================================
