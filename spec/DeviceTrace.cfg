SPECIFICATION Spec
CONSTANTS
  LogCap = 64
  DDev = {}
CHECK_DEADLOCK FALSE
