----------------------------- MODULE ClientTxnMC -----------------------------
(***************************************************************************)
(* The retry loop of a synchronous client, one transmission attempt per    *)
(* step, over every script of up to three outcomes followed by a second,   *)
(* healthy transaction, for retries 0..2 and all flag combinations.        *)
(* Checked: C13 SendBound, NoRaise, Termination (liveness), retry flags    *)
(* honoured, recovery; C08 OwnOnly.  Every deviation in CDev is rejected.  *)
(***************************************************************************)
EXTENDS ClientTxn, TLC

VARIABLES cfg, script, txn, k, sent, result, pc
vars == <<cfg, script, txn, k, sent, result, pc>>

Cfgs == {[retries |-> r, roe |-> e, roi |-> i] : r \in 0..2, e \in BOOLEAN, i \in BOOLEAN}
Scripts == UNION {[1..n -> Outcomes] : n \in 1..3}

Init == /\ cfg \in Cfgs /\ script \in Scripts
        /\ txn = 1 /\ k = 1 /\ sent = 0 /\ result = "none" /\ pc = "attempt"

CurScript == IF txn = 1 THEN script ELSE <<"own">>       \* the second transaction runs over a healthy transport
Attempt ==
  /\ pc = "attempt"
  /\ LET o == At(CurScript, k)
         more == k < Budget(cfg)
         retryEmpty == IF "RetryOnEmptyNeedsRoi" \in CDev THEN cfg.roe /\ cfg.roi ELSE cfg.roe
         again == \/ (o \in {"nothing", "late"} /\ retryEmpty /\ more)
                  \/ (o \in {"short", "garbage"} /\ ~(o = "garbage" /\ "RaisesOnGarbage" \in CDev) /\ cfg.roi /\ more)
                  \/ (o = "foreign" /\ "ForeignAccepted" \notin CDev /\ cfg.roi /\ more)
     IN /\ sent' = sent + 1
        /\ IF again THEN k' = k + 1 /\ result' = result /\ pc' = "attempt"
           ELSE /\ k' = k
                /\ result' = Run(cfg, CurScript, k).result
                /\ pc' = "done"
  /\ UNCHANGED <<cfg, script, txn>>
NextTxn == /\ pc = "done" /\ txn = 1
           /\ txn' = 2 /\ k' = 1 /\ sent' = 0 /\ result' = "none" /\ pc' = "attempt"
           /\ UNCHANGED <<cfg, script>>
Next == Attempt \/ NextTxn
Spec == Init /\ [][Next]_vars /\ WF_vars(Next)

Obs == [sent |-> sent, result |-> result]
C13SendBound == SendBound(cfg, Obs)
C13NoRaise == pc = "done" => NoRaise(Obs)
C08OwnOnly == pc = "done" => OwnOnly(Obs)
C13Honoured == pc = "done" => Honoured(cfg, CurScript, Obs)
C08NoInvention == pc = "done" => NoInvention(cfg, CurScript, Obs)
C13Recovers == (pc = "done" /\ txn = 2) => result = "reply"
C13Termination == <>(pc = "done" /\ txn = 2)
StepIsRun == pc = "done" => (sent = Run(cfg, CurScript, 1).sent /\ result = Run(cfg, CurScript, 1).result)
=============================================================================
