------------------------------ MODULE BlocksMC ------------------------------
(***************************************************************************)
(* Exhaustive model for C18: one block (every sequential block with start  *)
(* 0..3 and length 1..3, every sparse block over a non-empty subset of     *)
(* 0..4) under all sequences of validate / get / set / reset with          *)
(* addresses -1..6 (as 0..7 shifted by one), counts 1..5 and values 0/1,   *)
(* plus a server context under all sequences of get / set / del.           *)
(* The ghost `cells' is the naive reading of the property: a function from *)
(* populated address to value, updated cell by cell.                       *)
(***************************************************************************)
EXTENDS Blocks, TLC

VARIABLES blk, cells, last, srv, sghost
vars == <<blk, cells, last, srv, sghost>>

Addr == 0..7
SeqBlocks == {[kind |-> "seq", start |-> s, size |-> n, def |-> 0, zero |-> 0,
               ov |-> [a \in s..(s+n-1) |-> 0], fail |-> FALSE] : s \in 0..3, n \in 1..3}
SparseBlocks == {[kind |-> "sparse", keys |-> K, def |-> 0, zero |-> 0, ov |-> [a \in K |-> 0], fail |-> FALSE] :
                   K \in (SUBSET (0..4)) \ {{}}}
PopSet(b) == IF b.kind = "seq" THEN b.start..(b.start + b.size - 1) ELSE b.keys
Units == {0, 1, 247, 248, 255}
Ctxs == {"A", "B"}

Init == /\ blk \in SeqBlocks \cup SparseBlocks
        /\ cells = [a \in PopSet(blk) |-> 0]
        /\ last = [op |-> "none"]
        /\ srv \in {[single |-> TRUE, reg |-> [k \in {0} |-> "A"]], [single |-> FALSE, reg |-> <<>>],
                    [single |-> FALSE, reg |-> [k \in {1} |-> "A"]]}
        /\ sghost = srv.reg

Validate(a, n) == /\ last' = [op |-> "validate", a |-> a, n |-> n, res |-> RangeOK(blk, a, n)]
                  /\ UNCHANGED <<blk, cells, srv, sghost>>
Get(a, n) == /\ RangeOK(blk, a, n)
             /\ last' = [op |-> "get", a |-> a, n |-> n, res |-> GetVals(blk, a, n)]
             /\ UNCHANGED <<blk, cells, srv, sghost>>
Set(a, vals) == /\ RangeOK(blk, a, Len(vals))
                /\ blk' = SetVals(blk, a, vals)
                /\ cells' = [x \in DOMAIN cells |-> IF x >= a /\ x < a + Len(vals) THEN vals[x - a + 1] ELSE cells[x]]
                /\ last' = [op |-> "set", a |-> a, n |-> Len(vals)]
                /\ UNCHANGED <<srv, sghost>>
Reset == /\ blk' = ResetBlock(blk)
         /\ cells' = [x \in DOMAIN cells |-> 0]
         /\ last' = [op |-> "reset"]
         /\ UNCHANGED <<srv, sghost>>
SGet(u) == /\ last' = [op |-> "sget", u |-> u, res |-> SrvGet(srv, u)]
           /\ UNCHANGED <<blk, cells, srv, sghost>>
SSet(u, c) == /\ srv' = SrvSet(srv, u, c)
              /\ sghost' = IF srv.single THEN [k \in {0} |-> c]
                           ELSE IF u \in 0..247 THEN [k \in (DOMAIN sghost) \cup {u} |-> IF k = u THEN c ELSE sghost[k]]
                           ELSE sghost
              /\ last' = [op |-> "sset", u |-> u, ok |-> SrvSetOK(srv, u)]
              /\ UNCHANGED <<blk, cells>>
SDel(u) == /\ ~srv.single /\ u \in DOMAIN srv.reg
           /\ srv' = SrvDel(srv, u)
           /\ sghost' = [k \in (DOMAIN sghost) \ {u} |-> sghost[k]]
           /\ last' = [op |-> "sdel", u |-> u]
           /\ UNCHANGED <<blk, cells>>

Next == \/ \E a \in Addr, n \in 1..5 : Validate(a, n) \/ Get(a, n)
        \/ \E a \in Addr, n \in 1..3 : \E vals \in [1..n -> {0, 1}] : Set(a, vals)
        \/ Reset
        \/ \E u \in Units : SGet(u) \/ SDel(u) \/ \E c \in Ctxs : SSet(u, c)
Spec == Init /\ [][Next]_vars

(* ---- C18 ---------------------------------------------------------------- *)
ModelIsGhost == /\ DOMAIN cells = PopSet(blk)
                /\ \A a \in DOMAIN cells : Val(blk, a) = cells[a]
                /\ DOMAIN blk.ov \subseteq PopSet(blk)
ValidateIff == [][last'.op = "validate" =>
                    (last'.res <=> (last'.n >= 1 /\ \A k \in 0..(last'.n - 1) : (last'.a + k) \in DOMAIN cells))]_vars
GetInOrder == [][last'.op = "get" =>
                    (Len(last'.res) = last'.n /\ \A k \in 1..last'.n : last'.res[k] = cells[last'.a + k - 1])]_vars
SetFrame == [][last'.op = "set" =>
                 /\ DOMAIN cells' = DOMAIN cells
                 /\ \A x \in DOMAIN cells : (x < last'.a \/ x >= last'.a + last'.n) => cells'[x] = cells[x]]_vars
Routing == [][last'.op = "sget" =>
                last'.res = (IF srv.single THEN (IF DOMAIN sghost = {} THEN NoSuch ELSE sghost[CHOOSE k \in DOMAIN sghost : TRUE])
                             ELSE IF last'.u \in DOMAIN sghost THEN sghost[last'.u] ELSE NoSuch)]_vars
Registration == /\ srv.reg = sghost
                /\ ~srv.single => DOMAIN srv.reg \subseteq 0..247
View == <<blk, cells, srv, sghost>>
=============================================================================
