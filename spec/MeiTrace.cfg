SPECIFICATION Spec
CONSTANTS
  Dev = {}
CHECK_DEADLOCK FALSE
