#!/usr/bin/env python3
"""tools/seedtest.py Cxx [N ...]: confirm a seeded mutant produced by an independent sub-agent and run our check against it.

For /tmp/wt/Cxx/_seed/patchN.diff:
  1. in the scratch worktree: demo exits 0 on the clean tree, 1 with the patch; the 354 baseline tests still pass with the patch;
  2. apply the patch to /repo, run `bin/check Cxx --tier quick`, expect exit 1 + VIOLATION, undo (`git -C /repo checkout -- .`);
  3. store patch.diff / demo.py / meta.json under /verif/seeded/Cxx-N/ (meta.json records what was run and the outcome).
Nothing is ever committed to /repo."""
import json
import os
import shutil
import subprocess
import sys

VERIF = os.path.dirname(os.path.dirname(os.path.abspath(__file__)))


def sh(cmd, cwd=None, timeout=3000, env=None):
    e = dict(os.environ)
    if env:
        e.update(env)
    p = subprocess.run(cmd, shell=True, cwd=cwd, stdout=subprocess.PIPE, stderr=subprocess.STDOUT, text=True, timeout=timeout, env=e)
    return p.returncode, p.stdout


def main():
    prop = sys.argv[1]
    ns = sys.argv[2:] or ["1", "2"]
    wt = "/tmp/wt/%s" % prop
    for n in ns:
        patch = "%s/_seed/patch%s.diff" % (wt, n)
        demo = "%s/_seed/demo%s.py" % (wt, n)
        if not os.path.exists(patch):
            print("%s-%s: no patch" % (prop, n))
            continue
        meta = {}
        try:
            meta = json.load(open("%s/_seed/meta%s.json" % (wt, n)))
        except Exception:
            pass
        rec = {"property": prop, "mutant": int(n) + int(os.environ.get("SEED_OFFSET", "0")), "round": int(os.environ.get("SEED_ROUND", 1 + int(os.environ.get("SEED_OFFSET", "0")) // 2)), "what": meta.get("what"), "needs": meta.get("needs"), "files": meta.get("files"), "ran": {}}
        sh("git checkout -- pymodbus", cwd=wt)
        rc0, _ = sh("PYTHONPATH=%s timeout 300 /venv/bin/python %s" % (wt, demo), cwd=wt)
        rca, out = sh("git apply %s" % patch, cwd=wt)
        rc1, dout = sh("PYTHONPATH=%s timeout 300 /venv/bin/python %s" % (wt, demo), cwd=wt)
        _, tout = sh("/venv/bin/python -m pytest -q -p no:cacheprovider --timeout=900 --continue-on-collection-errors test 2>&1 | tail -1", cwd=wt)
        sh("git checkout -- pymodbus", cwd=wt)
        rec["ran"]["demo_clean_rc"] = rc0
        rec["ran"]["demo_mutant_rc"] = rc1
        rec["ran"]["demo_mutant_out"] = dout[-400:]
        rec["ran"]["tests_with_mutant"] = tout.strip()
        confirmed = rc0 == 0 and rc1 != 0 and rca == 0 and " 354 passed" in tout
        rec["confirmed"] = confirmed
        # our check against the mutant, on /repo itself, undone straight afterwards
        st, _ = sh("git -C /repo status --porcelain")
        if st != 0 or _.strip():
            print("refusing: /repo is not clean")
            return 2
        rcp, pout = sh("git -C /repo apply %s" % patch)
        try:
            if rcp != 0:
                rec["ran"]["apply_to_repo"] = pout[-300:]
                crc, cout = 99, ""
            else:
                crc, cout = sh("bin/check %s --tier quick" % prop, cwd=VERIF, timeout=3000)
        finally:
            sh("git -C /repo checkout -- .")
        rec["ran"]["check_cmd"] = "bin/check %s --tier quick" % prop
        rec["ran"]["check_rc"] = crc
        rec["ran"]["check_tail"] = [l[:200] for l in cout.splitlines() if "VIOLATION" in l or prop + " quick" in l or "MACHINERY" in l][-4:]
        rec["detected"] = crc == 1 and "VIOLATION property=%s" % prop in cout
        dst = os.path.join(VERIF, "seeded", "%s-%s" % (prop, int(n) + int(os.environ.get("SEED_OFFSET", "0"))))
        os.makedirs(dst, exist_ok=True)
        shutil.copy(patch, os.path.join(dst, "patch.diff"))
        shutil.copy(demo, os.path.join(dst, "demo.py"))
        json.dump(rec, open(os.path.join(dst, "meta.json"), "w"), indent=1)
        print("%s-%s confirmed=%s detected=%s check_rc=%s :: %s" % (prop, int(n) + int(os.environ.get("SEED_OFFSET", "0")), confirmed, rec["detected"], crc, (meta.get("what") or "")[:110]))
        sh("rm -rf %s/evidence/replays" % VERIF)
    # restore evidence of the unchanged tree
    return 0


if __name__ == "__main__":
    sys.exit(main())
