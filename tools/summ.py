#!/usr/bin/env python3
"""summarise replay files of a property: tools/summ.py C01"""
import json,glob,collections,sys
prop=sys.argv[1]
c=collections.Counter(); ex={}
for f in glob.glob('/verif/evidence/replays/%s_*.json'%prop):
    d=json.load(open(f)); v=d['verdict']; t=d['trace']; e=(t.get('ev') or t.get('calls'))[v['step']-1]
    key=(d.get('tag',''),tuple(v['clauses']), e.get('op',''), e.get('raised',''))
    c[key]+=1
    if key not in ex:
        ee={k:(bytes(x).hex() if k in('bytes','b1','b2','req','rsp') and isinstance(x,list) else x) for k,x in e.items()}
        ex[key]=(json.dumps(ee)[:400], json.dumps(v['detail'])[:300])
for k,n in sorted(c.items()): print(k,n,'\n    ',ex[k][0],'\n    ',ex[k][1])
