#!/usr/bin/env python3
"""print python source without docstrings/comments/blank lines (reading aid)"""
import sys
for fn in sys.argv[1:]:
    print("####", fn)
    indoc=False
    for line in open(fn).read().split('\n'):
        s=line.strip()
        if indoc:
            if s.endswith("'''") or s.endswith('"""'): indoc=False
            continue
        if s.startswith(("'''",'"""',"r'''",'r"""',"u'''",'u"""')):
            q=s.lstrip('ru')[:3]
            body=s.lstrip('ru')
            if not (len(body)>3 and body.endswith(q)): indoc=True
            continue
        if not s or s.startswith('#'): continue
        print(line)
