#!/usr/bin/env python3
"""tools/seedrecheck.py [ids...]: re-run our quick check against every kept seeded mutant (seeded/<id>/patch.diff applied to /repo and
undone straight afterwards); updates meta.json['recheck'] and prints one line per mutant. /repo must be clean."""
import json, os, subprocess, sys, glob
VERIF = os.path.dirname(os.path.dirname(os.path.abspath(__file__)))
REPO = os.environ.get("VERIF_REPO", "/repo")      # a scratch worktree / snapshot may be used instead of /repo (bin/check honours it too)
def sh(cmd, cwd=None, timeout=3000):
    p = subprocess.run(cmd, shell=True, cwd=cwd, stdout=subprocess.PIPE, stderr=subprocess.STDOUT, text=True, timeout=timeout)
    return p.returncode, p.stdout
ids = sys.argv[1:] or sorted(os.path.basename(d) for d in glob.glob(os.path.join(VERIF, "seeded", "C*-*")))
bad = 0
for sid in ids:
    d = os.path.join(VERIF, "seeded", sid)
    prop = sid.split("-")[0]
    rc, out = sh("git -C %s status --porcelain" % REPO)
    if out.strip():
        print("refusing: %s is not clean" % REPO); sys.exit(2)
    rc, out = sh("git -C %s apply %s/patch.diff" % (REPO, d))
    if rc != 0:
        rc, out = sh("git -C %s apply --3way %s/patch.diff" % (REPO, d))
    try:
        if rc != 0:
            crc, cout = 98, "patch does not apply: " + out[-200:]
        else:
            crc, cout = sh("bin/check %s --tier quick" % prop, cwd=VERIF)
    finally:
        sh("git -C %s checkout -- . ; git -C %s reset -q" % (REPO, REPO))
    det = crc == 1 and ("VIOLATION property=%s" % prop) in cout
    m = json.load(open(os.path.join(d, "meta.json")))
    m["recheck"] = {"check_rc": crc, "detected": det}
    json.dump(m, open(os.path.join(d, "meta.json"), "w"), indent=1)
    import re
    mv = re.findall(r"(\d+) violations", cout)
    m["recheck"]["violations"] = int(mv[-1]) if mv else -1
    m["recheck"]["seed"] = os.environ.get("VERIF_SEED", "default")
    json.dump(m, open(os.path.join(d, "meta.json"), "w"), indent=1)
    print("%s detected=%s rc=%s violations=%s seed=%s" % (sid, det, crc, m["recheck"]["violations"], m["recheck"]["seed"]), flush=True)
    bad += 0 if det else 1
    sh("rm -rf %s/evidence/replays" % VERIF)
print("not detected:", bad)
