#!/bin/bash
# tools/seedsweep.sh "<seeds>" "<props>" : runs quick checks under several seeds, prints one line per run (false-alarm hunting)
SEEDS=${1:-"1 2 3"}
PROPS=${2:-"C01 C02 C03 C04 C05 C06 C07 C09 C10 C11 C12 C17 C18 C19 C20"}
for s in $SEEDS; do for p in $PROPS; do
  out=$(VERIF_SEED=$s timeout 1500 bin/check $p --tier quick 2>&1); rc=$?
  echo "seed=$s $p rc=$rc $(echo "$out" | tail -1 | cut -c1-160)"
  if [ $rc -ne 0 ]; then echo "$out" | grep -E "VIOLATION|MACHINERY" | head -3; fi
done; done
