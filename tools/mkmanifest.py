#!/usr/bin/env python3
"""Regenerates MANIFEST.json from the table below (kept in one place so it stays valid)."""
import json, os
HERE = os.path.dirname(os.path.dirname(os.path.abspath(__file__)))
BASE = "cd /repo && /venv/bin/python -m pytest -ra -q -p no:cacheprovider --timeout=900 --continue-on-collection-errors"
TB = ("TLC 1.8.0 + CommunityModules; the TLA+ transcription of the Modbus documents in /verif/spec; in-process fakes of "
      "sockets/serial ports/clock described in DESIGN.md 2.5; no in-repo hooks")
CHECKS = {
 "C04": ("DataModel", "model_checking",
         "TLC exhausts the register-file model (3-cell tables, scaled limits, 4-8 layouts) for every request sequence and proves the "
         "C04 formulas (store = last written, read fresh, frame rule, echo, extent); the real decode/execute path is bound to the model "
         "by replaying (state,request) edges of the TLC graph and real-size random histories, each step validated by TLC against "
         "DataModel!Exec (response bytes and the exact set of changed cells).", "4 C04",
         "TLC model checking of DataModelMC + TLC trace validation (DataModelTrace) of replayed graph edges and recorded histories"),
 "C05": ("DataModel", "model_checking",
         "Same engine as C04; the exception-code rule (03 before 02, 04 for failing stores, 01 for unknown codes) and 'exception => no cell "
         "changed' are action properties checked on every transition of the model; the real code is swept across every limit, block "
         "boundary, inconsistent byte count and single-coil word and each step is validated by TLC.", "4 C05",
         "TLC model checking of DataModelMC + TLC trace validation (DataModelTrace) of boundary sweeps"),
 "C18": ("Blocks", "model_checking",
         "TLC exhausts every sequential block (start 0..3, length 1..3) and every sparse block over subsets of 0..4 under all "
         "validate/get/set/reset sequences, and a server context under all get/set/del sequences, against a naive ghost (function "
         "populated address -> value; registered unit -> context); the real datastore classes are driven through the same small blocks "
         "and through real-size blocks around every boundary (0, 1, 65535, 65536) and each operation is validated by TLC.", "4 C18",
         "TLC model checking of BlocksMC + TLC trace validation (BlocksTrace) of operation sequences on the real classes and of the datastore calls recorded while the repository's own tests run"),
 "C01": ("ModbusPDU", "exploration",
         "The PDU layouts of the standard are an executable TLA+ codec (ModbusPDU). TLC (a) proves the codec self-consistent over a boundary "
         "domain of ~12k messages of every class (round trip, 253-byte bound, byte-count rule, exception layout) and exports each as a vector, "
         "(b) computes the standard's PDU for thousands of random messages; the real encoders are compared byte-for-byte and the real "
         "server/client decoders field-by-field, every comparison evaluated by TLC. Exhaustive 16-bit sweeps per field in the thorough tier. "
         "It is exploration with an independent oracle, not a proof over all field combinations.", "4 C01 and 6",
         "TLC as executable oracle (PduMC/PduGen) + TLC trace validation (PduTrace) of real encode/decode calls, driven and recorded from the repository's own tests"),
 "C02": ("ModbusPDU", "model_checking",
         "MsgObjectMC: all encode/decode call histories on one message object (purity, determinism, no accumulation, round trip, fixed "
         "point), deviations rejected; histories of real calls on real objects of every class (PduMC boundary domain + random) are "
         "recorded with field projections before/after and validated by TLC relationally.", "4 C02",
         "TLC model checking of MsgObjectMC + TLC trace validation (PduTrace) of call histories on real objects"),
 "C03": ("Framing", "exploration",
         "Framing!Build is the ADU of each of the five framings written from the standards (bit-serial CRC-16, LRC, MBAP, jamod BIN "
         "escaping). buildPacket of real messages of every class is compared byte-for-byte by TLC; the frame TLC builds for (uid, tid, pdu) "
         "is handed whole to a fresh real receiver and must be delivered exactly once with its ids; sweeps over all 256 unit ids, "
         "transaction ids, every data byte value, and computeCRC/computeLRC over arbitrary strings. Reference receivers are model-checked.",
         "4 C03", "TLC as executable oracle (FramingGen) + TLC trace validation (FramingTrace; also of buildPacket calls recorded from the repository's own tests) + FramingMC"),
 "C06": ("Framing", "model_checking",
         "FramingMC: reference TCP/RTU/ASCII receivers under every Feed(k) schedule of streams of pool frames satisfy PrefixOK/Complete; "
         "deviations (reset on incomplete frame, one frame per call) are rejected. The real framers are fed TLC-built streams of 1-3 "
         "frames of every message class under every chunking of the short streams and every 1-cut / sampled multi-cut chunking (empty "
         "reads included) of longer ones; each call is validated by TLC (NoRaise, PrefixOK, Complete).", "4 C06",
         "TLC model checking over all arrival schedules (FramingMC) + TLC trace validation (FramingTrace) of chunked deliveries"),
 "C07": ("Framing", "fault_enumeration",
         "Every single-bit flip, sampled double flips, byte substitutions, deletions, insertions and truncations of TLC-built frames of "
         "every class on RTU/ASCII/binary/TCP, alone or next to valid frames, are fed to the real framers; TLC checks that every delivered "
         "message is justified by a slice of the input that is a well-formed frame under the TLA+ CRC/LRC (Justified). FramingMC proves "
         "the same for the reference receivers under every fault placement and chunking.", "4 C07",
         "fault enumeration judged by TLC (FramingTrace!Justified; also deliveries recorded from the repository's own tests) + FramingMC"),
 "C11": ("Framing", "model_checking",
         "Safety formulation with ghost offsets: after the last garbage byte plus two maximum-size frames every wholly fed valid frame "
         "must have been delivered (Resync), and the backlog stays bounded. FramingMC checks it for reference RTU/ASCII receivers over "
         "all chunkings of garbage prefixes; the real RTU/ASCII/binary framers get garbage (random bytes, delimiters, bad checksum, "
         "truncated, foreign unit, long byte count) followed by ~800-1500 bytes of valid frames, one or several per read.", "4 C11",
         "TLC model checking (FramingMC garbage mode) + TLC trace validation (FramingTrace Resync/Backlog)"),
 "C19": ("Payload", "model_checking",
         "PayloadMC: all sequences of up to 3 typed fields x 4 byte/word-order combinations (layout inverse, conventional image, register "
         "image, pointer arithmetic, decoded = added), deviations rejected; ~40k real payloads (MC sequences concretised, edge values of "
         "every type, random 1-12 field payloads) built and decoded via bytes and via registers, every add/decode validated by TLC.",
         "4 C19", "TLC model checking (PayloadMC) + TLC trace validation (PayloadTrace) of driven payloads and of builder/decoder calls recorded from the repository's own tests"),
 "C09": ("Server", "model_checking",
         "ServerMC: two connections, hosted sets {1},{1,2},{0,1}, all flag combinations, requests to units 0..3, whole and split frames "
         "in every interleaving: response goes to the requesting connection with its ids and function code, silence rules for broadcast "
         "and ignored missing units; deviations rejected. The seven real front-ends (threaded TCP/serial/UDP, asyncio TCP/UDP, Twisted "
         "TCP/UDP) are driven in-process with pipelined request histories on every framing they accept; every input event is validated by "
         "TLC against Server!Serve (one well-formed response frame per request, header and data). Diagnostic / status requests (FC 8, 7, 11, 12) "
         "interleaved with application calls on the control block are judged against the state machine of Device.tla (9.7).", "4 C09 and 9.7",
         "TLC model checking (ServerMC, DeviceMC) + TLC trace validation (ServerTrace strict mode, DeviceTrace) of 7 front-ends; ServerGen behaviours replayed"),
 "C10": ("Server", "model_checking",
         "ServerMC action property: only the addressed unit's tables change, a broadcast write reaches every hosted unit exactly once, "
         "missing units change nothing; the real front-ends are driven with unit ids 0..255 (sampled in quick) against hosted sets "
         "including 0 / 255 / 247, single/multi, broadcast and ignore flags, with per-unit store dumps before/after each event "
         "validated by TLC.", "4 C10", "TLC model checking (ServerMC C10Step) + TLC trace validation (ServerTrace UnitStore)"),
 "C12": ("Server", "fault_enumeration",
         "Hostile byte streams (random bytes, bit-flipped and truncated frames, checksum-valid frames with truncated / over-long / "
         "inconsistent PDUs, MBAP lengths 0/1/65535) are fed to all seven front-ends; TLC checks per event that no exception escapes, every "
         "write is a well-formed frame answering a request justified by the input (ghost frames, every length-consistent MBAP slice, every "
         "LRC-valid ASCII segment), every store change is a cell/value a justified write request prescribes, and a probe on a fresh "
         "connection (serial: after the resynchronisation allowance) is answered correctly.", "4 C12",
         "fault enumeration judged by TLC (ServerTrace hostile mode) + ServerMC"),
 "C17": ("Server", "model_checking",
         "Relational: the same request history (data-access and identification requests) is run on every front-end that accepts the "
         "framing and TLC requires identical per-event response frames, store changes and connection state; 2-3 connections interleaved "
         "with random chunk boundaries are compared with each connection run alone (framing state is private). ServerMC checks the "
         "isolation property with a ghost of what each connection really sent and rejects a shared framer.", "4 C17",
         "TLC model checking (ServerMC Isolation) + TLC relational trace validation (ServerRelTrace)"),
 "C20": ("Mei", "model_checking",
         "MeiMC: the client chain over identities of up to 4-8 objects with boundary lengths (exact-fit and one-over pages), all read "
         "codes and start ids: size bound, termination (safety bound and liveness), exactly-once completeness, more/next rule; deviations "
         "rejected. ~20k real chains through ServerDecoder -> execute -> encode -> ClientDecoder validated page by page by TLC.", "4 C20",
         "TLC model checking incl. liveness (MeiMC) + TLC trace validation (MeiTrace)"),
 "C08": ("ClientTxn", "model_checking",
         "ClientTxnMC: the retry loop over every script of up to three per-attempt outcomes (own reply, exception reply, stale frame then "
         "own reply, foreign reply only, nothing, short, garbage, OSError, peer close), retries 0..2, both flags: a returned reply is always "
         "the own one (OwnOnly / NoInvention); deviations rejected. Every 1-2 (quick) / 1-3 (thorough) outcome script is concretised for "
         "every request type and run on the real TCP, RTU-over-TCP, UDP and serial RTU/ASCII/binary clients under a scripted transport and "
         "virtual clock; TLC classifies the returned object (by the raw PDU its decoder saw) against the frames fed during the call.",
         "4 C08", "TLC model checking (ClientTxnMC) + TLC trace validation (ClientTrace)"),
 "C13": ("ClientTxn", "fault_enumeration",
         "Same engine as C08: SendBound (<= 1 + retries transmissions, each the same well-formed request frame), NoRaise, termination "
         "(liveness in ClientTxnMC, watchdog on virtual time in the harness), retry-on-empty / retry-on-invalid honoured, and a healthy "
         "follow-up transaction after every faulty one, for all scripts x retries 0..3 x flags x six client kinds.", "4 C13",
         "fault-script enumeration judged by TLC (ClientTrace) + ClientTxnMC incl. liveness"),
 "C14": ("ClientTxn", "exploration",
         "Exhaustive over the quantity domain: get_response_pdu_size() of every predicting request class (bits 1..2000, registers 1..125, "
         "write quantities, read/write 1..125 x {1,2,121}, every diagnostic sub-function) is compared by TLC with the length of the "
         "response DataModel!Exec prescribes and with the real executed response; per-framing overhead and exception length for PDU sizes "
         "1..253 against Framing!Build; the read sizes real serial / RTU-over-TCP clients ask of the transport must sum to exactly the "
         "reply frame for normal and exception replies.", "4 C14",
         "exhaustive enumeration judged by TLC (PredictTrace, ClientTrace ReadsExactlyFrame)"),
 "C15": ("ClientTxn", "model_checking",
         "ThreadsMC: every interleaving of 2-4 caller threads x 2-3 transactions (Acquire, Send, Recv, Release) keeps mutual exclusion, "
         "own replies, no loss/duplication and completes (liveness); a missing lock or a lock held only around send is rejected. "
         "ThreadsImplMC is the implementation-shaped model (lock, connect check/open, send, receive, dropped transmission -> back-off -> "
         "retransmission, failing transport -> close -> reconnect) and rejects connect outside the lock, a lock released during the "
         "back-off, a lock wait that times out and a lock re-created by close(); the recorded TCP executions (lock / connect / send / unlock / "
         "done events) are validated as behaviours of that model (ThreadsImplTrace; a rejection triggers a larger schedule search, see "
         "DESIGN.md 9.8). Real "
         "threads run on one real ModbusTcpClient under a deterministic scheduler (pre-emption at connect/send/select/recv/virtual sleep "
         "and every lock operation, replies of different lengths and latencies): every placement of one pre-emption per thread plus seeded "
         "random and strided schedules; TLC checks Mutex / OwnReply / NoLoss / NoDup / NoDeadlock on each recorded trace, and the same "
         "schedules with a no-op lock must be rejected.", "4 C15",
         "TLC model checking over schedules (ThreadsMC, ThreadsImplMC) + TLC trace validation (ThreadsTrace monitors, ThreadsImplTrace refinement) of scheduled real threads"),
 "C16": ("AsyncClient", "model_checking",
         "AsyncClientMC: all histories of up to 5 requests with a transaction-id space of 4 (wrap and collisions reachable), replies in "
         "any order, duplicates, unsolicited replies, loss at every point: fires-once, tid match, distinct outstanding ids, loss fails "
         "all, nothing forgotten; an id-reusing allocator is rejected. Seeded histories (incl. split replies and counter presets that "
         "wrap onto outstanding ids) run on the real Twisted ModbusClientProtocol / ModbusSerClientProtocol with a StringTransport; every "
         "event's set of fired deferreds is validated by TLC against the model state.", "4 C16",
         "TLC model checking (AsyncClientMC) + TLC trace validation (AsyncTrace)"),
}
NA_REASON = "check not built yet in this round (see DESIGN.md section 8 for the order of work); no claim is made"
ALL = ["C%02d" % i for i in range(1, 21)]

def main():
    checks = []
    for pid in sorted(CHECKS):
        eng, cat, text, ref, tech = CHECKS[pid]
        checks.append({
            "property_id": pid,
            "quick_cmd": "bin/check %s --tier quick" % pid,
            "thorough_cmd": "bin/check %s --tier thorough" % pid,
            "evidence_file": "/verif/evidence/%s.json" % pid,
            "replay_cmd_template": "bin/check %s --replay {path}" % pid,
            "engine": eng,
            "level_claimed": {"category": cat, "text": text, "design_ref": "DESIGN.md section " + ref},
            "level_note": TB,
            "technique": tech,
        })
    engines = {}
    for pid in sorted(CHECKS):
        engines.setdefault(CHECKS[pid][0], []).append(pid)
    m = {
        "version": 1,
        "setup_cmd": "bin/setup",
        "hooks": {"guard": "PYMODBUS_VERIF", "enable": "no in-repo hooks are needed: the harness imports /repo's working tree and replaces transports from outside",
                  "baseline_off_cmd": BASE, "source_commits": [], "add_only": True},
        "engines": [{"name": e, "path": "spec/%s.tla" % e, "serves_properties": ps,
                     "kind_free_text": "TLA+ module checked with TLC; trace validation binds it to /repo"} for e, ps in sorted(engines.items())],
        "checks": checks,
        "notes": "All verdicts are produced by TLC evaluating the TLA+ formulas in /verif/spec (see DESIGN.md 2.2-2.3). known_findings.json lists genuine defects (open) and repaired ones (fixed).",
        "not_applicable": [{"property_id": p, "reason": NA_REASON} for p in ALL if p not in CHECKS],
    }
    with open(os.path.join(HERE, "MANIFEST.json"), "w") as f:
        json.dump(m, f, indent=1)
    print("MANIFEST.json: %d checks, %d not claimed" % (len(checks), len(m["not_applicable"])))

if __name__ == "__main__":
    main()
