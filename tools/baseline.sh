#!/bin/bash
# runs the repository's pinned test-suite (guard off); exit 0 iff exactly the 354 baseline tests pass
cd /repo && env -u PYMODBUS_VERIF /venv/bin/python -m pytest -ra -q -p no:cacheprovider --timeout=900 --continue-on-collection-errors "$@" > /tmp/baseline.$$ 2>&1
tail -3 /tmp/baseline.$$
grep -q " 354 passed" /tmp/baseline.$$; rc=$?
rm -f /tmp/baseline.$$
exit $rc
