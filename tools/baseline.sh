#!/bin/bash
# runs the repository's pinned test-suite (guard off) and prints the number of passing tests (expected: 354)
cd /repo && env -u PYMODBUS_VERIF /venv/bin/python -m pytest -ra -q -p no:cacheprovider --timeout=900 --continue-on-collection-errors "$@" 2>&1 | tail -3
