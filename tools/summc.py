#!/usr/bin/env python3
import json,glob,collections,sys
prop=sys.argv[1]
c=collections.Counter(); ex={}
for f in glob.glob('/verif/evidence/replays/%s_*.json'%prop):
    d=json.load(open(f)); v=d['verdict']; t=d['trace']; x=t['txns'][0]
    key=(t['client'], tuple(sorted(v['clauses'])), t['cfg']['retries'], t['cfg']['roe'], t['cfg']['roi'], x['result']['kind'], x['result']['exc'])
    c[key]+=1; ex.setdefault(key,(x['script'], len(x['writes']), t.get('history'), f.split('/')[-1]))
for k,n in sorted(c.items()): print(n,k,ex[k])
