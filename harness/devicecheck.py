"""The diagnostic state machine (spec/Device.tla) bound to the real code: histories of diagnostic / status requests fed as
frames through the seven real server front-ends, interleaved with calls of the hosting application on the real
ModbusControlBlock; every step judged by TLC (spec/DeviceTrace.tla).

Growth of the specification beyond the listed properties.  What it reports:
  * DeviceSilence / DeviceHeader are statements of C09 (exactly one response with the request's ids; nothing for Force Listen
    Only): they are reported as C09 violations by servercheck;
  * DeviceResponse / DeviceState (the data of a diagnostic response, the state it leaves) are not stated by any listed property:
    they are printed as SPEC-DIVERGENCE lines and recorded in the evidence, and do not change the exit code.
"""
import copy
import random
import struct

import framing_drv as F
import server_drv as D
import dm
from vcommon import model_check, model_check_expect_violation, validate_traces, MachineryError, SPEC, import_repo

import_repo()
from pymodbus.device import ModbusControlBlock  # noqa: E402
import pymodbus.events as EV  # noqa: E402

CNT = ["BusMessage", "BusCommunicationError", "BusExceptionError", "SlaveMessage", "SlaveNoResponse", "SlaveNAK", "SlaveBusy",
       "BusCharacterOverrun", "Event"]
DEVS = ["ClearKeepsLog", "ListenAnswers", "LogUnbounded", "CounterOffByOne"]


def mc(rep):
    res = model_check("DeviceMC", "DeviceMC.cfg", timeout=600, coverage=True)
    rep.add_mc(res, "DeviceMC.cfg")
    if any(a["taken"] == 0 for a in res.get("actions", {}).values()):
        raise MachineryError("DeviceMC: an action is never taken: %s" % res["actions"])
    import os
    base = open(os.path.join(SPEC, "DeviceMC.cfg")).read()
    for d in DEVS:
        bad, _ = model_check_expect_violation("DeviceMC", None, cfg_text=base.replace("DDev = {}", 'DDev = {"%s"}' % d))
        if not bad:
            raise MachineryError("DeviceMC with deviation %s satisfies every property: vacuous" % d)
    rep.notes["device_model_deviations_rejected_by_tlc"] = DEVS


def reset_mcb():
    mcb = ModbusControlBlock()
    mcb.reset()
    mcb.ListenOnly = False
    mcb.Delimiter = "\r"
    return mcb


def observe(mcb):
    d = mcb.Delimiter
    d = d.encode("latin1") if isinstance(d, str) else bytes(d)
    return {"listen": 1 if mcb.ListenOnly else 0, "delim": d[0] if d else 0,
            "cnt": [int(getattr(mcb.Counter, n)) for n in CNT], "log": list(mcb.getEvents())}


def rand_event(rng):
    c = rng.random()
    if c < 0.4:
        return EV.RemoteReceiveEvent(overrun=rng.random() < 0.5, listen=rng.random() < 0.3, broadcast=rng.random() < 0.3)
    if c < 0.8:
        return EV.RemoteSendEvent(read=rng.random() < 0.5, slave_abort=rng.random() < 0.3, slave_busy=rng.random() < 0.3,
                                  slave_nak=rng.random() < 0.3, write_timeout=rng.random() < 0.3, listen=rng.random() < 0.3)
    return EV.EnteredListenModeEvent() if c < 0.9 else EV.CommunicationRestartEvent()


def rand_req(rng, kind="tcp"):
    c = rng.random()
    if c < 0.12:
        return bytes([rng.choice([7, 11, 12])])
    if c < 0.2:
        # (a stream receiver of RTU sizes a diagnostic request at 8 bytes: one data word only)
        n = rng.choice([1, 1, 2, 5]) if kind == "tcp" else 1
        return bytes([8, 0, 0]) + bytes(rng.randrange(256) for _ in range(2 * n))
    if c < 0.26:
        return bytes([8, 0, 1]) + rng.choice([b"\x00\x00", b"\xff\x00"])
    if c < 0.32:
        return bytes([8, 0, 3, rng.randrange(256), 0])
    if c < 0.36:
        return bytes([8, 0, 4, 0, 0])
    if c < 0.46:
        return bytes([8, 0, rng.choice([10, 20]), 0, 0])
    if c < 0.52:
        return bytes([8, 0, 2, 0, 0])
    return bytes([8, 0, rng.randint(11, 19)]) + rng.choice([b"\x00\x00", b"\x00\x00", b"\x12\x34"])


def history(tid, fe_name, kind, rng, length, fixed=None):
    D.reset_singletons()
    mcb = reset_mcb()
    cfg = {"single": 1, "hosted": [1], "broadcast": 0, "ignore": 0}
    sc, _ = D.build_server_context(cfg, [[0, dm.layout(1, dm.seq_block(0, 10), dm.seq_block(0, 10), dm.seq_block(0, 10), dm.seq_block(0, 10))]])
    fe = D.FRONTENDS[fe_name](kind, sc, cfg)
    conn = fe.open()
    ev = []
    for step in range(length if fixed is None else len(fixed)):
        if D.POISONED:
            break                 # a handler hung (reported at the request that did it): nothing more is fed in this process
        c = rng.random()
        if fixed is not None:
            c = 1.0
            if fixed[step][0] == "inc":
                k, n = fixed[step][1], fixed[step][2]
                setattr(mcb.Counter, CNT[k - 1], getattr(mcb.Counter, CNT[k - 1]) + n)
                ev.append({"op": "env", "what": "inc", "k": k, "n": n})
                continue
        if c < 0.18:
            k = rng.randint(1, 8)
            cur = int(getattr(mcb.Counter, CNT[k - 1]))
            top = 65535                             # (the Twisted front-ends add to the bus message counter themselves: it wraps)
            n = rng.choice([1, 1, 2, 255, 256, top - cur])
            if n <= 0 or cur + n > top:
                n = 1 if cur < top else 0
            if n:
                setattr(mcb.Counter, CNT[k - 1], getattr(mcb.Counter, CNT[k - 1]) + n)
                ev.append({"op": "env", "what": "inc", "k": k, "n": n})
        elif c < 0.38:
            burst = rng.choice([1, 1, 1, 3, 70])        # 70: beyond the capacity of the log
            for _b in range(burst):
                e = rand_event(rng)
                mcb.addEvent(e)
                ev.append({"op": "env", "what": "event", "e": e.encode()[0]})
        elif c < 0.46:
            b, v = rng.randrange(16), rng.choice([0, 1])
            mcb.setDiagnostic({b: v})
            ev.append({"op": "env", "what": "diag", "b": b, "v": v})
        else:
            pdu = rand_req(rng, kind) if fixed is None else bytes(fixed[step][1])
            tidn, uid = rng.randint(1, 65535), rng.choice([1, 2, 17, 247])
            r = D.safe_feed(fe, conn, F.pyframe(kind, tidn, 0, uid, pdu))
            rsp, hdr = [], 0
            if r["writes"]:
                w = r["writes"][0][1]
                if kind == "tcp" and len(w) >= 8:
                    rsp = list(w[7:])
                    hdr = 1 if (struct.unpack(">H", w[:2])[0] == tidn and w[6] == uid and struct.unpack(">H", w[4:6])[0] == len(w) - 6) else 0
                elif kind == "rtu" and len(w) >= 4:
                    rsp = list(w[1:-2])
                    hdr = 1 if w[0] == uid else 0
            ev.append({"op": "req", "pdu": list(pdu), "nrsp": len(r["writes"]), "rsp": rsp, "hdr": hdr, "obs": observe(mcb),
                       "raised": r["raised"]})
    try:
        fe.close()
    except Exception:
        pass
    reset_mcb()
    return {"id": tid, "fe": fe_name, "kind": kind, "ev": ev}


def gen(tier, rng):
    traces = []
    pairs = [(fe, "tcp") for fe in D.STREAM_FES + D.DGRAM_FES] + [("syncSerial", "rtu")]
    per = 12 if tier == "quick" else 150
    k = 0
    # every counter at the top of its 16-bit range, then served requests (a front-end that counts what it sends must wrap)
    edge = [("inc", k, 65535) for k in range(1, 9)] + [("req", [8, 0, 0, 1, 2]), ("req", [8, 0, 11, 0, 0]), ("req", [7]), ("req", [12]),
                                                       ("req", [8, 0, 16, 0, 0]), ("req", [8, 0, 10, 0, 0]), ("req", [8, 0, 11, 0, 0])]
    for fe, kind in pairs:
        traces.append(history("d%d" % k, fe, kind, rng, 0, fixed=edge))
        k += 1
        for _ in range(per):
            traces.append(history("d%d" % k, fe, kind, rng, rng.choice([6, 12, 25, 40])))
            k += 1
    return traces


def tlc_histories(n, depth, tlc_seed):
    """random behaviours of DeviceGen (tlc -simulate), de-duplicated: [{fe, hist: [{op, a, pdu}]}]"""
    import json
    import os
    from vcommon import run_tlc, parse_printed
    cfg = open(os.path.join(SPEC, "DeviceGen.cfg")).read().replace("GenDepth = 14", "GenDepth = %d" % depth)
    res = run_tlc("DeviceGen", None, workers=1, timeout=600, cfg_text=cfg,
                  extra=["-simulate", "num=%d" % n, "-depth", str(depth + 1), "-seed", str(tlc_seed)])
    hs = parse_printed(res["out"], "HIST")
    if not hs:
        raise MachineryError("DeviceGen produced no behaviours:\n" + "\n".join(res["out"].splitlines()[-20:]))
    seen, out = set(), []
    for h in hs:
        key = json.dumps(h, sort_keys=True)
        if key not in seen:
            seen.add(key)
            out.append(h)
    return out


def replay_history(tid, h, fe_name, rng):
    """one TLC-generated behaviour replayed into a real front-end (the model's counting / non-counting front-end decides which)"""
    kind = "tcp"
    D.reset_singletons()
    mcb = reset_mcb()
    cfg = {"single": 1, "hosted": [1], "broadcast": 0, "ignore": 0}
    sc, _ = D.build_server_context(cfg, [[0, dm.layout(1, dm.seq_block(0, 10), dm.seq_block(0, 10), dm.seq_block(0, 10), dm.seq_block(0, 10))]])
    fe = D.FRONTENDS[fe_name](kind, sc, cfg)
    conn = fe.open()
    ev = []
    events = {4: EV.EnteredListenModeEvent(), 72: EV.RemoteReceiveEvent(overrun=True)}
    for st in h["hist"]:
        if D.POISONED:
            break
        if st["op"] == "inc":
            k = st["a"]
            setattr(mcb.Counter, CNT[k - 1], getattr(mcb.Counter, CNT[k - 1]) + 1)
            ev.append({"op": "env", "what": "inc", "k": k, "n": 1})
        elif st["op"] == "event":
            e = events[st["a"]]
            if e.encode()[0] != st["a"]:
                raise MachineryError("event byte %r is not %d" % (e.encode(), st["a"]))
            mcb.addEvent(e)
            ev.append({"op": "env", "what": "event", "e": st["a"]})
        elif st["op"] == "diag":
            b = st["a"]
            v = 0 if mcb.getDiagnosticRegister()[b] else 1
            mcb.setDiagnostic({b: v})
            ev.append({"op": "env", "what": "diag", "b": b, "v": v})
        else:
            pdu = bytes(st["pdu"])
            tidn, uid = rng.randint(1, 65535), rng.choice([1, 2, 17, 247])
            r = D.safe_feed(fe, conn, F.pyframe(kind, tidn, 0, uid, pdu))
            rsp, hdr = [], 0
            if r["writes"]:
                w = r["writes"][0][1]
                if len(w) >= 8:
                    rsp = list(w[7:])
                    hdr = 1 if (struct.unpack(">H", w[:2])[0] == tidn and w[6] == uid and struct.unpack(">H", w[4:6])[0] == len(w) - 6) else 0
            ev.append({"op": "req", "pdu": list(pdu), "nrsp": len(r["writes"]), "rsp": rsp, "hdr": hdr, "obs": observe(mcb), "raised": r["raised"]})
    try:
        fe.close()
    except Exception:
        pass
    reset_mcb()
    return {"id": tid, "fe": fe_name, "kind": kind, "ev": ev, "source": "DeviceGen"}


C09_CLAUSES = {"DeviceSilence", "DeviceHeader"}


def run_into(rep, prop, tier, rng):
    """model-check Device, record + validate histories; returns nothing, fills rep"""
    mc(rep)
    traces = gen(tier, rng)
    # spec -> code: behaviours TLC generated from the model, replayed into the real front-ends
    from vcommon import seed
    hs = tlc_histories(150 if tier == "quick" else 2000, 14, seed() % 100000)
    plain = ["syncTcp", "aioTcp", "syncUdp", "aioUdp"]
    for j, h in enumerate(hs[:120 if tier == "quick" else 1500]):
        fe_name = (["twTcp", "twUdp"][j % 2]) if h["fe"] == "twTcp" else plain[j % len(plain)]
        traces.append(replay_history("g%d" % j, h, fe_name, rng))
    rep.notes["device_behaviours_generated_by_tlc_and_replayed"] = len([t for t in traces if t.get("source") == "DeviceGen"])
    verdicts, st = validate_traces("DeviceTrace", "DeviceTrace.cfg", traces)
    rep.add_tv(st, len(traces), sum(len(t["ev"]) for t in traces))
    ok, div = [], {}
    for t in traces:
        v = verdicts[t["id"]]
        if v["status"] == "OK":
            ok.append(t)
            for e in t["ev"]:
                if e["op"] == "req":
                    rep.distinct(("device", t["fe"], tuple(e["pdu"][:3]), e["nrsp"], len(e["rsp"])))
        elif v["status"] == "UNJUDGED":
            raise MachineryError("device history %s has a request outside the model's domain: %s" % (t["id"], v))
        else:
            mine = set(v["clauses"]) & C09_CLAUSES
            if mine:
                rep.violation("device-%s-%s" % (t["fe"], "-".join(sorted(mine))),
                              {"property": prop, "engine": "DeviceTrace", "tag": t["fe"], "trace": t, "verdict": v})
            else:
                key = (t["fe"], tuple(sorted(v["clauses"])), tuple(v["detail"].get("pdu", [])[:3]))
                div[key] = div.get(key, 0) + 1
    for (fe, cl, pdu), n in sorted(div.items())[:12]:
        print("SPEC-DIVERGENCE (outside the listed properties) Device.tla vs code: front-end %s, clauses %s, request %s, %d histories"
              % (fe, ",".join(cl), bytes(pdu).hex(), n))
    rep.notes["device_model"] = {"histories": len(traces), "accepted": len(ok),
                                 "divergences_outside_listed_properties": [{"fe": k[0], "clauses": list(k[1]), "req": bytes(k[2]).hex(), "n": n}
                                                                           for k, n in sorted(div.items())]}
    # binding self-test: a forged counter value and a forged extra response must be rejected
    base = next((t for t in ok if any(e["op"] == "req" and e["nrsp"] == 1 and e["pdu"][:2] == [8, 0] and 11 <= e["pdu"][2] <= 19
                                      for e in t["ev"])), None)
    if base is None:
        if not traces or len(ok) * 2 < len(traces) or rep.violations or D.POISONED:
            rep.notes["device_self_test"] = "skipped: no accepted history with a counter read in this run"
            return
        raise MachineryError("device self-test: no accepted history with a counter read")
    m1, m2 = copy.deepcopy(base), copy.deepcopy(base)
    m1["id"], m2["id"] = "st_val", "st_two"
    e1 = next(e for e in m1["ev"] if e["op"] == "req" and e["nrsp"] == 1 and e["pdu"][:2] == [8, 0] and 11 <= e["pdu"][2] <= 19)
    e1["rsp"][-1] ^= 1
    e2 = next(e for e in m2["ev"] if e["op"] == "req" and e["nrsp"] == 1)
    e2["nrsp"] = 2
    sv, _ = validate_traces("DeviceTrace", "DeviceTrace.cfg", [m1, m2], shards=1)
    if sv["st_val"]["status"] != "FAIL" or "DeviceResponse" not in sv["st_val"]["clauses"] or \
            sv["st_two"]["status"] != "FAIL" or "DeviceSilence" not in sv["st_two"]["clauses"]:
        raise MachineryError("device self-test: corrupted histories accepted: %s" % {k: (x["status"], x["clauses"]) for k, x in sv.items()})
    rep.notes["device_self_test"] = {k: x["clauses"] for k, x in sv.items()}


if __name__ == "__main__":
    from vcommon import Report
    rep = Report("C09", "quick", "model_checking")
    run_into(rep, "C09", "quick", random.Random(1))
    print(rep.notes.get("device_model"), rep.violations[:2])
