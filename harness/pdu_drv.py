"""PDU engine driver (C01, C02, C14): canonical message records <-> pymodbus objects.

A canonical message is a dict {"t": tag, ...fields} with exactly the fields of the corresponding TLA+
record in spec/ModbusPDU.tla.  `build(m)` constructs the pymodbus object, `project(obj)` reads the
documented public fields back.  Neither is an oracle: TLC compares bytes and projections with
ModbusPDU!Encode / Decode.
"""
import random
import struct

from vcommon import import_repo

import_repo()
from pymodbus import bit_read_message as brm, bit_write_message as bwm  # noqa: E402
from pymodbus import register_read_message as rrm, register_write_message as rwm  # noqa: E402
from pymodbus import diag_message as dg, other_message as om, file_message as fm, mei_message as mei  # noqa: E402
from pymodbus.pdu import ExceptionResponse  # noqa: E402
from pymodbus.factory import ServerDecoder, ClientDecoder  # noqa: E402

DIAG_REQ = {c.sub_function_code: c for c in vars(dg).values()
            if isinstance(c, type) and issubclass(c, dg.DiagnosticStatusRequest) and hasattr(c, "sub_function_code")}
DIAG_RSP = {c.sub_function_code: c for c in vars(dg).values()
            if isinstance(c, type) and issubclass(c, dg.DiagnosticStatusResponse) and hasattr(c, "sub_function_code")}


def _bits(v):
    return [1 if x else 0 for x in v]


def _words_of(msg):
    if msg is None:
        return []
    if isinstance(msg, bool):
        return [int(msg)]
    if isinstance(msg, int):
        return [msg]
    if isinstance(msg, (bytes, bytearray)):
        b = bytes(msg)
        if len(b) % 2:
            return [99999] + list(b)
        return [b[i] * 256 + b[i + 1] for i in range(0, len(b), 2)]
    if isinstance(msg, str):
        return _words_of(msg.encode())
    out = []
    for x in msg:
        out.append(int(x) if isinstance(x, (int, bool)) else 99998)
    return out


def _bytes_words(data):
    b = bytes(data) if not isinstance(data, str) else data.encode("latin1")
    if len(b) % 2:
        return [99999] + list(b)
    return [b[i] * 256 + b[i + 1] for i in range(0, len(b), 2)]


def _wbytes(words):
    return b"".join(struct.pack(">H", w) for w in words)


def build(m):
    t = m["t"]
    if t == "Exception":
        return ExceptionResponse(m["fc"], m["code"])
    if t == "ReadCoilsReq":
        return brm.ReadCoilsRequest(m["addr"], m["qty"])
    if t == "ReadDiscreteReq":
        return brm.ReadDiscreteInputsRequest(m["addr"], m["qty"])
    if t == "ReadHoldingReq":
        return rrm.ReadHoldingRegistersRequest(m["addr"], m["qty"])
    if t == "ReadInputReq":
        return rrm.ReadInputRegistersRequest(m["addr"], m["qty"])
    if t == "ReadCoilsRsp":
        return brm.ReadCoilsResponse([bool(b) for b in m["bits"]])
    if t == "ReadDiscreteRsp":
        return brm.ReadDiscreteInputsResponse([bool(b) for b in m["bits"]])
    if t == "ReadHoldingRsp":
        return rrm.ReadHoldingRegistersResponse(list(m["regs"]))
    if t == "ReadInputRsp":
        return rrm.ReadInputRegistersResponse(list(m["regs"]))
    if t == "ReadWriteRsp":
        return rrm.ReadWriteMultipleRegistersResponse(list(m["regs"]))
    if t == "WriteCoilReq":
        return bwm.WriteSingleCoilRequest(m["addr"], bool(m["on"]))
    if t == "WriteCoilRsp":
        return bwm.WriteSingleCoilResponse(m["addr"], bool(m["on"]))
    if t == "WriteRegReq":
        return rwm.WriteSingleRegisterRequest(m["addr"], m["val"])
    if t == "WriteRegRsp":
        return rwm.WriteSingleRegisterResponse(m["addr"], m["val"])
    if t == "WriteCoilsReq":
        return bwm.WriteMultipleCoilsRequest(m["addr"], [bool(b) for b in m["bits"]])
    if t == "WriteCoilsRsp":
        return bwm.WriteMultipleCoilsResponse(m["addr"], m["qty"])
    if t == "WriteRegsReq":
        return rwm.WriteMultipleRegistersRequest(m["addr"], list(m["regs"]))
    if t == "WriteRegsRsp":
        return rwm.WriteMultipleRegistersResponse(m["addr"], m["qty"])
    if t == "MaskWriteReq":
        return rwm.MaskWriteRegisterRequest(m["addr"], m["andm"], m["orm"])
    if t == "MaskWriteRsp":
        return rwm.MaskWriteRegisterResponse(m["addr"], m["andm"], m["orm"])
    if t == "ReadWriteReq":
        return rrm.ReadWriteMultipleRegistersRequest(read_address=m["raddr"], read_count=m["rqty"],
                                                     write_address=m["waddr"], write_registers=list(m["regs"]))
    if t == "ExcStatusReq":
        return om.ReadExceptionStatusRequest()
    if t == "ExcStatusRsp":
        return om.ReadExceptionStatusResponse(m["status"])
    if t == "EventCounterReq":
        return om.GetCommEventCounterRequest()
    if t == "EventCounterRsp":
        r = om.GetCommEventCounterResponse(m["count"])
        r.status = bool(m["ready"])
        return r
    if t == "EventLogReq":
        return om.GetCommEventLogRequest()
    if t == "EventLogRsp":
        return om.GetCommEventLogResponse(status=bool(m["ready"]), message_count=m["msgcount"], event_count=m["evcount"],
                                          events=list(m["events"]))
    if t == "SlaveIdReq":
        return om.ReportSlaveIdRequest()
    if t == "SlaveIdRsp":
        return om.ReportSlaveIdResponse(bytes(m["id"]), bool(m["run"]))
    if t in ("DiagReq", "DiagRsp"):
        table = DIAG_REQ if t == "DiagReq" else DIAG_RSP
        cls = table.get(m["sub"])
        data = list(m["data"])
        if cls is None:
            o = (dg.DiagnosticStatusRequest if t == "DiagReq" else dg.DiagnosticStatusResponse)()
            o.sub_function_code = m["sub"]
            o.message = data
            return o
        name = cls.__name__
        if name.startswith("ReturnQueryData"):
            return cls(data)
        if name.startswith("RestartCommunicationsOption"):
            if data == [0xFF00]:
                return cls(True)
            if data == [0]:
                return cls(False)
            o = cls(False)
            o.message = data
            return o
        if name.startswith("ForceListenOnlyMode"):
            o = cls()
            if data != [0] and t == "DiagReq":
                o.message = data
            if t == "DiagRsp":
                o.message = data
            return o
        if name.startswith("GetClearModbusPlusRequest"):
            o = cls()
            o.message = data[0] if len(data) == 1 else data
            return o
        if len(data) == 1:
            return cls(data[0])
        o = cls()
        o.message = data
        return o
    if t == "ReadFileReq":
        return fm.ReadFileRecordRequest([fm.FileRecord(file_number=r["file"], record_number=r["rec"], record_length=r["len"])
                                         for r in m["recs"]])
    if t == "ReadFileRsp":
        return fm.ReadFileRecordResponse([fm.FileRecord(record_data=_wbytes(r["data"])) for r in m["recs"]])
    if t in ("WriteFileReq", "WriteFileRsp"):
        cls = fm.WriteFileRecordRequest if t == "WriteFileReq" else fm.WriteFileRecordResponse
        return cls([fm.FileRecord(file_number=r["file"], record_number=r["rec"], record_data=_wbytes(r["data"])) for r in m["recs"]])
    if t == "FifoReq":
        return fm.ReadFifoQueueRequest(m["addr"])
    if t == "FifoRsp":
        return fm.ReadFifoQueueResponse(list(m["regs"]))
    if t == "DevIdReq":
        return mei.ReadDeviceInformationRequest(m["code"], m["oid"])
    if t == "DevIdRsp":
        info = {}
        for o in m["objs"]:
            if o["id"] in info:
                if not isinstance(info[o["id"]], list):
                    info[o["id"]] = [info[o["id"]]]
                info[o["id"]].append(bytes(o["val"]))
            else:
                info[o["id"]] = bytes(o["val"])
        r = mei.ReadDeviceInformationResponse(m["code"], info)
        r.conformity = m["conf"]
        r.more_follows = m["more"]
        r.next_object_id = m["next"]
        return r
    raise ValueError(t)


REQ_TAG = {"ReadCoilsRequest": "ReadCoilsReq", "ReadDiscreteInputsRequest": "ReadDiscreteReq",
           "ReadHoldingRegistersRequest": "ReadHoldingReq", "ReadInputRegistersRequest": "ReadInputReq",
           "ReadCoilsResponse": "ReadCoilsRsp", "ReadDiscreteInputsResponse": "ReadDiscreteRsp",
           "ReadHoldingRegistersResponse": "ReadHoldingRsp", "ReadInputRegistersResponse": "ReadInputRsp",
           "ReadWriteMultipleRegistersResponse": "ReadWriteRsp", "WriteSingleCoilRequest": "WriteCoilReq",
           "WriteSingleCoilResponse": "WriteCoilRsp", "WriteSingleRegisterRequest": "WriteRegReq",
           "WriteSingleRegisterResponse": "WriteRegRsp", "WriteMultipleCoilsRequest": "WriteCoilsReq",
           "WriteMultipleCoilsResponse": "WriteCoilsRsp", "WriteMultipleRegistersRequest": "WriteRegsReq",
           "WriteMultipleRegistersResponse": "WriteRegsRsp", "MaskWriteRegisterRequest": "MaskWriteReq",
           "MaskWriteRegisterResponse": "MaskWriteRsp", "ReadWriteMultipleRegistersRequest": "ReadWriteReq",
           "ReadExceptionStatusRequest": "ExcStatusReq", "ReadExceptionStatusResponse": "ExcStatusRsp",
           "GetCommEventCounterRequest": "EventCounterReq", "GetCommEventCounterResponse": "EventCounterRsp",
           "GetCommEventLogRequest": "EventLogReq", "GetCommEventLogResponse": "EventLogRsp",
           "ReportSlaveIdRequest": "SlaveIdReq", "ReportSlaveIdResponse": "SlaveIdRsp",
           "ReadFileRecordRequest": "ReadFileReq", "ReadFileRecordResponse": "ReadFileRsp",
           "WriteFileRecordRequest": "WriteFileReq", "WriteFileRecordResponse": "WriteFileRsp",
           "ReadFifoQueueRequest": "FifoReq", "ReadFifoQueueResponse": "FifoRsp",
           "ReadDeviceInformationRequest": "DevIdReq", "ReadDeviceInformationResponse": "DevIdRsp"}


def project(o):
    """The documented public fields of a message object as a canonical record."""
    if o is None:
        return {"t": "none"}
    n = type(o).__name__
    if isinstance(o, ExceptionResponse):
        return {"t": "Exception", "fc": o.original_code, "code": o.exception_code}
    if isinstance(o, dg.DiagnosticStatusRequest) or isinstance(o, dg.DiagnosticStatusResponse):
        t = "DiagReq" if isinstance(o, dg.DiagnosticStatusRequest) else "DiagRsp"
        sub = getattr(o, "sub_function_code", -1)
        table = DIAG_REQ if t == "DiagReq" else DIAG_RSP
        exp = table.get(sub)
        # the class must be the registered one for the sub-function (or the generic base for unregistered ones)
        cls_ok = (type(o) is exp) if exp is not None else (n in ("DiagnosticStatusRequest", "DiagnosticStatusResponse"))
        return {"t": t if cls_ok else t + ":wrongclass:" + n, "sub": sub, "data": _words_of(o.message)}
    t = REQ_TAG.get(n)
    if t is None:
        return {"t": "unknown:" + n}
    if t in ("ReadCoilsReq", "ReadDiscreteReq", "ReadHoldingReq", "ReadInputReq"):
        return {"t": t, "addr": o.address, "qty": o.count}
    if t in ("ReadCoilsRsp", "ReadDiscreteRsp"):
        return {"t": t, "bits": _bits(o.bits)}
    if t in ("ReadHoldingRsp", "ReadInputRsp", "ReadWriteRsp"):
        return {"t": t, "regs": [int(x) for x in o.registers]}
    if t in ("WriteCoilReq", "WriteCoilRsp"):
        return {"t": t, "addr": o.address, "on": 1 if o.value else 0}
    if t in ("WriteRegReq", "WriteRegRsp"):
        return {"t": t, "addr": o.address, "val": o.value}
    if t == "WriteCoilsReq":
        return {"t": t, "addr": o.address, "bits": _bits(o.values)}
    if t == "WriteRegsReq":
        return {"t": t, "addr": o.address, "regs": [int(x) for x in o.values]}
    if t in ("WriteCoilsRsp", "WriteRegsRsp"):
        return {"t": t, "addr": o.address, "qty": o.count}
    if t in ("MaskWriteReq", "MaskWriteRsp"):
        return {"t": t, "addr": o.address, "andm": o.and_mask, "orm": o.or_mask}
    if t == "ReadWriteReq":
        return {"t": t, "raddr": o.read_address, "rqty": o.read_count, "waddr": o.write_address,
                "regs": [int(x) for x in o.write_registers]}
    if t in ("ExcStatusReq", "EventCounterReq", "EventLogReq", "SlaveIdReq"):
        return {"t": t}
    if t == "ExcStatusRsp":
        return {"t": t, "status": o.status}
    if t == "EventCounterRsp":
        return {"t": t, "ready": 1 if o.status else 0, "count": o.count}
    if t == "EventLogRsp":
        return {"t": t, "ready": 1 if o.status else 0, "evcount": o.event_count, "msgcount": o.message_count,
                "events": [int(e) for e in o.events]}
    if t == "SlaveIdRsp":
        ident = o.identifier if isinstance(o.identifier, (bytes, bytearray)) else str(o.identifier).encode("latin1")
        return {"t": t, "id": list(ident), "run": 1 if o.status else 0}
    if t == "ReadFileReq":
        return {"t": t, "recs": [{"file": r.file_number, "rec": r.record_number, "len": r.record_length} for r in o.records]}
    if t == "ReadFileRsp":
        return {"t": t, "recs": [{"data": _bytes_words(r.record_data)} for r in o.records]}
    if t in ("WriteFileReq", "WriteFileRsp"):
        return {"t": t, "recs": [{"file": r.file_number, "rec": r.record_number, "data": _bytes_words(r.record_data)} for r in o.records]}
    if t == "FifoReq":
        return {"t": t, "addr": o.address}
    if t == "FifoRsp":
        return {"t": t, "regs": [int(x) for x in o.values]}
    if t == "DevIdReq":
        return {"t": t, "code": o.read_code, "oid": o.object_id}
    if t == "DevIdRsp":
        objs = []
        for k, v in o.information.items():
            for item in (v if isinstance(v, list) else [v]):
                b = item if isinstance(item, (bytes, bytearray)) else str(item).encode("latin1")
                objs.append({"id": int(k), "val": list(b)})
        return {"t": t, "code": o.read_code, "conf": o.conformity, "more": o.more_follows, "next": o.next_object_id, "objs": objs}
    return {"t": "unknown:" + n}


def is_req(m):
    return m["t"].endswith("Req")


def encode_real(m):
    o = build(m)
    return bytes([o.function_code]) + o.encode()


def decode_real(direction, pdu):
    dec = ServerDecoder() if direction == "req" else ClientDecoder()
    return dec.decode(bytes(pdu))


# ---- generators of canonical messages -----------------------------------------------------------------

W_EDGE = [0, 1, 2, 7, 8, 9, 255, 256, 257, 0x7FFF, 0x8000, 0xFFFE, 0xFFFF]
DIAG_SUBS = sorted(DIAG_REQ)


def w(rng):
    return rng.choice(W_EDGE) if rng.random() < 0.5 else rng.randint(0, 65535)


def bitlist(rng, n):
    style = rng.randint(0, 4)
    if style == 0:
        return [0] * n
    if style == 1:
        return [1] * n
    if style == 2:
        return [i % 2 for i in range(n)]
    if style == 3:
        return [1 if i in (0, n - 1) else 0 for i in range(n)]
    return [rng.randint(0, 1) for _ in range(n)]


def wordlist(rng, n):
    return [w(rng) for _ in range(n)]


def rand_message(rng, tag=None):
    tags = ["Exception", "ReadCoilsReq", "ReadDiscreteReq", "ReadHoldingReq", "ReadInputReq", "ReadCoilsRsp", "ReadDiscreteRsp",
            "ReadHoldingRsp", "ReadInputRsp", "ReadWriteRsp", "WriteCoilReq", "WriteCoilRsp", "WriteRegReq", "WriteRegRsp",
            "WriteCoilsReq", "WriteCoilsRsp", "WriteRegsReq", "WriteRegsRsp", "MaskWriteReq", "MaskWriteRsp", "ReadWriteReq",
            "ExcStatusReq", "ExcStatusRsp", "EventCounterReq", "EventCounterRsp", "EventLogReq", "EventLogRsp", "SlaveIdReq",
            "SlaveIdRsp", "DiagReq", "DiagRsp", "ReadFileReq", "ReadFileRsp", "WriteFileReq", "WriteFileRsp", "FifoReq", "FifoRsp",
            "DevIdReq", "DevIdRsp"]
    t = tag or rng.choice(tags)
    ln = lambda mx: rng.choice([0, 1, 2, 7, 8, 9, 15, 16, 17, mx - 1, mx, rng.randint(0, mx)])
    if t == "Exception":
        return {"t": t, "fc": rng.choice([1, 2, 3, 4, 5, 6, 7, 8, 11, 12, 15, 16, 17, 20, 21, 22, 23, 24, 43, rng.randint(1, 127)]),
                "code": rng.choice([1, 2, 3, 4, 5, 6, 8, 10, 11, rng.randint(0, 255)])}
    if t in ("ReadCoilsReq", "ReadDiscreteReq", "ReadHoldingReq", "ReadInputReq"):
        lim = 2000 if "Coils" in t or "Discrete" in t else 125
        return {"t": t, "addr": w(rng), "qty": rng.choice([0, 1, lim - 1, lim, lim + 1, w(rng)])}
    if t in ("ReadCoilsRsp", "ReadDiscreteRsp"):
        n = rng.choice([1, 7, 8, 9, 16, 17, 1999, 2000, 2001, 2040, rng.randint(1, 2040)])
        return {"t": t, "bits": bitlist(rng, n)}
    if t in ("ReadHoldingRsp", "ReadInputRsp", "ReadWriteRsp"):
        return {"t": t, "regs": wordlist(rng, rng.choice([0, 1, 2, 124, 125, 126, 127, rng.randint(0, 127)]))}
    if t in ("WriteCoilReq", "WriteCoilRsp"):
        return {"t": t, "addr": w(rng), "on": rng.randint(0, 1)}
    if t in ("WriteRegReq", "WriteRegRsp"):
        return {"t": t, "addr": w(rng), "val": w(rng)}
    if t == "WriteCoilsReq":
        n = rng.choice([1, 7, 8, 9, 16, 17, 1967, 1968, 1969, 2040, rng.randint(1, 2040)])
        return {"t": t, "addr": w(rng), "bits": bitlist(rng, n)}
    if t == "WriteRegsReq":
        return {"t": t, "addr": w(rng), "regs": wordlist(rng, rng.choice([1, 2, 122, 123, 124, 127, rng.randint(1, 127)]))}
    if t in ("WriteCoilsRsp", "WriteRegsRsp"):
        return {"t": t, "addr": w(rng), "qty": w(rng)}
    if t in ("MaskWriteReq", "MaskWriteRsp"):
        return {"t": t, "addr": w(rng), "andm": w(rng), "orm": w(rng)}
    if t == "ReadWriteReq":
        return {"t": t, "raddr": w(rng), "rqty": rng.choice([0, 1, 125, 126, w(rng)]), "waddr": w(rng),
                "regs": wordlist(rng, rng.choice([1, 2, 120, 121, 122, rng.randint(1, 127)]))}
    if t in ("ExcStatusReq", "EventCounterReq", "EventLogReq", "SlaveIdReq"):
        return {"t": t}
    if t == "ExcStatusRsp":
        return {"t": t, "status": rng.randint(0, 255)}
    if t == "EventCounterRsp":
        return {"t": t, "ready": rng.randint(0, 1), "count": w(rng)}
    if t == "EventLogRsp":
        return {"t": t, "ready": rng.randint(0, 1), "evcount": w(rng), "msgcount": w(rng),
                "events": [rng.randint(0, 255) for _ in range(rng.choice([0, 1, 2, 64, rng.randint(0, 64)]))]}
    if t == "SlaveIdRsp":
        return {"t": t, "id": [rng.randint(0, 255) for _ in range(rng.choice([1, 2, 8, rng.randint(1, 100)]))], "run": rng.randint(0, 1)}
    if t in ("DiagReq", "DiagRsp"):
        sub = rng.choice(DIAG_SUBS + [5, 22, 0xFFFF] if rng.random() < 0.9 else [w(rng)])
        if sub == 0:
            data = wordlist(rng, rng.choice([1, 1, 2, 3, 10]))
        elif sub == 1:
            data = [rng.choice([0, 0xFF00])]
        elif sub == 4:
            data = [0] if t == "DiagReq" else []
        elif sub == 21 and t == "DiagRsp":
            data = [rng.choice([3, 4])] + (wordlist(rng, 54) if rng.random() < 0.5 else [])
        elif sub == 21:
            data = [rng.choice([3, 4])]
        else:
            data = [w(rng)]
        return {"t": t, "sub": sub, "data": data}
    if t == "ReadFileReq":
        return {"t": t, "recs": [{"file": w(rng), "rec": w(rng), "len": w(rng)} for _ in range(rng.choice([0, 1, 2, 35, rng.randint(0, 35)]))]}
    if t == "ReadFileRsp":
        recs, room = [], 250
        for _ in range(rng.choice([0, 1, 2, 5])):
            n = rng.choice([0, 1, 2, rng.randint(0, 30)])
            if 2 + 2 * n > room:
                break
            room -= 2 + 2 * n
            recs.append({"data": wordlist(rng, n)})
        return {"t": t, "recs": recs}
    if t in ("WriteFileReq", "WriteFileRsp"):
        recs, room = [], 250
        for _ in range(rng.choice([0, 1, 2, 5])):
            n = rng.choice([0, 1, 2, rng.randint(0, 30)])
            if 7 + 2 * n > room:
                break
            room -= 7 + 2 * n
            recs.append({"file": w(rng), "rec": w(rng), "data": wordlist(rng, n)})
        return {"t": t, "recs": recs}
    if t == "FifoReq":
        return {"t": t, "addr": w(rng)}
    if t == "FifoRsp":
        return {"t": t, "regs": wordlist(rng, rng.choice([0, 1, 2, 30, 31, rng.randint(0, 31)]))}
    if t == "DevIdReq":
        return {"t": t, "code": rng.choice([1, 2, 3, 4, 0, 5, rng.randint(0, 255)]), "oid": rng.choice([0, 1, 2, 3, 6, 0x80, 0xFF, rng.randint(0, 255)])}
    if t == "DevIdRsp":
        objs, room = [], 246
        ids = sorted(rng.sample(range(0, 256), rng.choice([0, 1, 2, 3, 7])))
        for i in ids:
            n = rng.choice([0, 1, 5, 20, rng.randint(0, 60)])
            if 2 + n > room:
                break
            room -= 2 + n
            objs.append({"id": i, "val": [rng.randint(32, 126) for _ in range(n)]})
        return {"t": t, "code": rng.choice([1, 2, 3, 4]), "conf": rng.choice([1, 2, 3, 0x81, 0x82, 0x83]),
                "more": rng.choice([0, 0xFF]), "next": rng.choice([0, rng.randint(0, 255)]), "objs": objs}
    raise ValueError(t)
