"""C19 (payload builder / decoder agree for every byte and word order): model checking of
spec/PayloadMC (+ rejection of every named deviation), replay of the TLC-generated payloads with
real values, random typed value sequences over the full ranges; everything the real code did is
judged by TLC through spec/PayloadTrace.tla."""
import copy
import json
import os
import random
import time
from concurrent.futures import ThreadPoolExecutor

import payload_drv as drv
from vcommon import (Report, model_check, model_check_expect_violation, validate_traces, seed, MachineryError,
                     open_findings, SPEC)

MAX_REPLAYS = 40
CLAUSES = {"AddLayout", "Registers", "DecodeValue", "Pointer", "RoundTrip"}
DEVIATIONS = ("WordOrderIgnored", "ByteSwapWholeValue", "OddTailDropped", "RegistersLittle")
# a deviation must also be caught by the round-trip / image formulas alone (not only by an algebraic side lemma)
TARGETED = (("WordOrderIgnored", ("DecodedIsAdded", "Complete")),
            ("OddTailDropped", ("Progress", "Complete", "DecodedIsAdded")),
            ("RegistersLittle", ("DecodedIsAdded",)),
            ("ByteSwapWholeValue", ("ConventionalLayout",)))


def _cfg():
    with open(os.path.join(SPEC, "PayloadMC.cfg")) as f:
        return f.read()


def _violated(out):
    for line in out.splitlines():
        if line.startswith("Error: Invariant ") and "violated" in line:
            return line.split()[2]
        if line.startswith("Error: Action property "):
            return line.split()[3]
    return "?"


def mc_and_export(rep):
    base = _cfg()
    if "Dev = {}" not in base or "Export = FALSE" not in base:
        raise MachineryError("PayloadMC.cfg lost its Dev / Export lines")
    cfg_text = base.replace("Export = FALSE", "Export = TRUE") + "INVARIANT ExportState\n"
    res = model_check("PayloadMC", None, cfg_text=cfg_text, timeout=600, coverage=True)
    rep.add_mc(res, "PayloadMC.cfg")
    acts = res.get("actions") or {}
    for a in ("PayloadMC.Add", "PayloadMC.Open", "PayloadMC.Dec"):
        if not acts.get(a, {}).get("distinct"):
            raise MachineryError("action %s of PayloadMC was never taken (coverage: %s)" % (a, acts))
    seqs = []
    for line in res["out"].splitlines():
        if line.startswith('<<"SEQ", '):
            seqs.append(json.loads(json.loads(line[len('<<"SEQ", '):-2])))
    if not seqs:
        raise MachineryError("PayloadMC exported no payloads")
    # TLC workers print in any order; the replay must not depend on it
    seqs.sort(key=lambda q: json.dumps(q, sort_keys=True))
    combos = {(s["bo"], s["wo"]) for s in seqs}
    if len(combos) != 4:
        raise MachineryError("PayloadMC export does not cover the four order combinations: %s" % sorted(combos))
    return seqs


def check_deviations():
    """Non-vacuity: every named deviation of spec/Payload.tla must be rejected by the properties TLC just verified."""
    base = _cfg()
    caught = {}
    for dev in DEVIATIONS:
        bad, r2 = model_check_expect_violation("PayloadMC", None, cfg_text=base.replace("Dev = {}", 'Dev = {"%s"}' % dev))
        if not bad:
            raise MachineryError("model with deviation %s satisfies every property: the properties are vacuous" % dev)
        caught[dev] = [_violated(r2["out"])]
    for dev, props in TARGETED:
        lines = [l for l in base.splitlines() if not l.startswith(("INVARIANT", "PROPERTY"))]
        text = "\n".join(lines).replace("Dev = {}", 'Dev = {"%s"}' % dev) + "\n" + "".join("INVARIANT %s\n" % p for p in props)
        bad, r2 = model_check_expect_violation("PayloadMC", None, cfg_text=text)
        if not bad:
            raise MachineryError("deviation %s is not caught by %s alone" % (dev, "/".join(props)))
        caught[dev].append(_violated(r2["out"]))
    return caught


def gen_mc_traces(seqs, tier, rng):
    """Every payload TLC built (types x orders), concretised with real values."""
    reps = 1 if tier == "quick" else 4
    traces = []
    k = 0
    for s in seqs:
        for _ in range(reps):
            fields = drv.concretise(s["items"], rng)
            traces.append(drv.run_payload("m%d" % k, s["bo"], s["wo"], fields, regs_each=(k % 2 == 0)))
            k += 1
    return traces


def gen_random_traces(n, rng, first_id=0):
    traces = []
    for k in range(first_id, first_id + n):
        bo, wo = drv.ORDERS[k % 2], drv.ORDERS[(k // 2) % 2]
        fields = drv.rand_fields(rng)
        traces.append(drv.run_payload("r%d" % k, bo, wo, fields, regs_each=(k % 3 == 0)))
    return traces


def gen_edge_traces(rng):
    """Every edge bit pattern of every float format and the integer extremes, alone and after one byte
    (even and odd alignment / totals), under the four order combinations."""
    traces = []
    k = 0
    import struct
    vals = []
    for t in drv.FLOAT_TYPES:
        for bits in drv._F_EDGE[t]:
            vals.append((t, struct.unpack(">" + drv.FIXED[t][0], bits.to_bytes(drv.SIZE[t], "big"))[0]))
    for t in drv.INT_TYPES:
        lo, hi = drv._int_range(t)
        for v in sorted({lo, hi, 0, 1, lo + 1, hi - 1, -1 if lo < 0 else hi // 2}):
            vals.append((t, v))
    for t, v in vals:
        for bo in drv.ORDERS:
            for wo in drv.ORDERS:
                traces.append(drv.run_payload("e%d" % k, bo, wo, [(t, v)]))
                k += 1
                traces.append(drv.run_payload("e%d" % k, bo, wo, [("u8", rng.randrange(1, 256)), (t, v)], regs_each=True))
                k += 1
    return traces


def self_test(ok_traces):
    """The binding must have teeth: one corrupted byte / register / pointer of an accepted trace must be rejected,
    by the clause that speaks about it."""
    base = None
    for t in ok_traces:
        ops = [e["op"] for e in t["ev"]]
        if any(e["op"] == "add" and e["type"] in ("u32", "i32", "f32", "u64", "i64", "f64") for e in t["ev"]) \
                and ops.count("dec") >= 2 and t["ev"][ops.index("regs")]["regs"]:
            base = t
            break
    if base is None:
        raise MachineryError("self-test: no suitable accepted trace")
    muts = []
    a = copy.deepcopy(base); a["id"] = "st_add"
    e = next(e for e in a["ev"] if e["op"] == "add" and len(e["out"]) >= 4); e["out"][1] ^= 0x01; muts.append(a)
    b = copy.deepcopy(base); b["id"] = "st_regs"
    e = next(e for e in b["ev"] if e["op"] == "regs" and e["regs"]); e["regs"][0] ^= 0x0100; muts.append(b)
    c = copy.deepcopy(base); c["id"] = "st_got"
    e = next(e for e in c["ev"] if e["op"] == "dec" and e["got"]); e["got"][-1] ^= 0x01; muts.append(c)
    d = copy.deepcopy(base); d["id"] = "st_ptr"
    e = [e for e in d["ev"] if e["op"] == "dec"][1]; e["ptr_before"] += 1; e["ptr_after"] += 1; muts.append(d)
    f = copy.deepcopy(base); f["id"] = "st_swap"          # two words of a 32/64-bit value exchanged in the builder output
    e = next(e for e in f["ev"] if e["op"] == "add" and len(e["out"]) >= 4)
    e["out"][0:2], e["out"][2:4] = e["out"][2:4], e["out"][0:2]
    if e["out"][0:2] != e["out"][2:4]:
        muts.append(f)
    v, _ = validate_traces("PayloadTrace", "PayloadTrace.cfg", muts, shards=1)
    want = {"st_add": "AddLayout", "st_regs": "Registers", "st_got": "DecodeValue", "st_ptr": "Pointer", "st_swap": "AddLayout"}
    res = {}
    for m in muts:
        x = v[m["id"]]
        res[m["id"]] = [x["status"]] + sorted(x["clauses"])
        if x["status"] != "FAIL" or want[m["id"]] not in x["clauses"]:
            raise MachineryError("self-test: corrupted trace %s not rejected by clause %s: %s" % (m["id"], want[m["id"]], x))
    # the uncorrupted trace must still be accepted by the same run shape
    v0, _ = validate_traces("PayloadTrace", "PayloadTrace.cfg", [base], shards=1)
    if v0[base["id"]]["status"] != "OK":
        raise MachineryError("self-test: base trace no longer accepted")
    return res


def _describe(t):
    adds = [e for e in t["ev"] if e["op"] == "add"]
    regs = [e for e in t["ev"] if e["op"] == "regs"][-1]
    return {"id": t["id"], "byteorder": t["bo"], "wordorder": t["wo"],
            "added": [{"type": e["type"], "image": bytes(e["img"]).hex() if e["type"] != "bits" else e["img"],
                       "appended": bytes(e["out"]).hex()} for e in adds[:6]],
            "to_string": bytes(regs["all"]).hex(), "to_registers": regs["regs"][:12],
            "decoded_via_regs": [[e["type"], bytes(e["got"]).hex() if e["type"] != "bits" else e["got"]]
                                 for e in t["ev"] if e["op"] == "dec" and e["via"] == "regs"][:6]}


def run(prop, tier):
    rng = random.Random(seed() * 7 + 19)
    rep = Report(prop, tier, "model_checking")
    seqs = mc_and_export(rep)
    rep.notes["mc_payloads_exported"] = len(seqs)
    t0 = time.time()
    traces = gen_mc_traces(seqs, tier, rng)
    n_mc = len(traces)
    traces += gen_edge_traces(rng)
    n_edge = len(traces) - n_mc
    n_rand = 20000 if tier == "quick" else 260000
    batch = 10000 if tier == "quick" else 40000
    known = {f["id"]: f for f in open_findings(prop)}
    ok_traces = []
    classes = set()
    counts = {"OK": 0, "FAIL": 0, "UNJUDGED": 0}
    done_rand = 0

    def judge(batch_traces, verdicts, st):
        rep.add_tv(st, len(batch_traces), sum(len(t["ev"]) for t in batch_traces))
        kept = [0]
        for t in batch_traces:
            v = verdicts[t["id"]]
            counts[v["status"]] = counts.get(v["status"], 0) + 1
            if v["status"] == "UNJUDGED":
                raise MachineryError("trace %s has an event the trace specification cannot judge: %s" % (t["id"], v))
            adds = [e for e in t["ev"] if e["op"] == "add"]
            total = sum(len(e["out"]) for e in adds)
            for e in adds:
                if e["type"] in drv.FLOAT_TYPES:
                    classes.add((e["type"], drv.float_class(e["type"], bytes(e["img"]))))
            if any(e["type"] in drv.ORDER_SENSITIVE for e in adds):
                # non-trivial: the orders matter for this payload; distinct by orders, field types/lengths, parity
                rep.distinct((t["bo"], t["wo"], tuple((e["type"], len(e["img"])) for e in adds), total % 2))
            if v["status"] == "OK":
                if kept[0] < 8 and not t.get("recorded"):
                    kept[0] += 1
                    ok_traces.append(t)
                continue
            if not (set(v["clauses"]) & CLAUSES):
                raise MachineryError("verdict without a C19 clause: %s" % v)
            payload = {"property": prop, "engine": "PayloadTrace", "trace": t, "verdict": v}
            matched = None
            for fid, f in known.items():
                sig = f.get("signature", {})
                ev = t["ev"][v["step"] - 1]
                if set(v["clauses"]) <= set(sig.get("clauses", [])) and ev.get("type", ev["op"]) in sig.get("types", []):
                    matched = fid
            if matched:
                rep.known(matched)
            elif len(rep.violations) < MAX_REPLAYS:
                rep.violation("-".join(sorted(v["clauses"])), payload)
            else:       # one replay file per failing trace would be thousands of files for a systematic defect
                rep.notes["failing_traces_without_replay_file"] = rep.notes.get("failing_traces_without_replay_file", 0) + 1

    # TLC judges batch k while the driver produces batch k+1 (TLC runs in subprocesses)
    first = list(traces)
    rep.notes["payload_generation_s"] = round(time.time() - t0, 2)
    with ThreadPoolExecutor(max_workers=1) as ex, ThreadPoolExecutor(max_workers=1) as ex2:
        devs = ex2.submit(check_deviations)
        pending = (ex.submit(validate_traces, "PayloadTrace", "PayloadTrace.cfg", first, shards=16), first)
        while done_rand < n_rand:
            n = min(batch, n_rand - done_rand)
            nxt = gen_random_traces(n, rng, first_id=done_rand)
            done_rand += n
            judge(pending[1], *pending[0].result())
            pending = (ex.submit(validate_traces, "PayloadTrace", "PayloadTrace.cfg", nxt, shards=16), nxt)
        judge(pending[1], *pending[0].result())
        rep.notes["model_deviations_rejected_by_tlc"] = devs.result()
    # what the repository's own tests made the builder / decoder do (recorded by harness/repotrace_plugin.py)
    import repotests
    rd = repotests.record()
    rec = rd.get("payload", [])
    if rec:
        rv, rst = validate_traces("PayloadTrace", "PayloadTrace.cfg", rec, shards=1)
        judged = [t for t in rec if rv[t["id"]]["status"] != "UNJUDGED"]       # e.g. a test reading past the end of its payload
        judge(judged, rv, rst)
    repotests.note(rep, rd, "payload")
    rep.notes["traces"] = {"mc_payloads_concretised": n_mc, "edge_values": n_edge, "random_payloads": n_rand}
    rep.notes["verdicts"] = counts
    rep.notes["float_classes_seen"] = sorted("%s:%s" % c for c in classes)
    need = {(t, s + c) for t in drv.FLOAT_TYPES for s in "+-" for c in ("zero", "subnormal", "normal", "inf", "nan")}
    # CPython's float -> binary image conversion decides the sign of a NaN image; both signs are not required
    missing = {x for x in need - classes if not x[1].endswith("nan")} | \
              {(t, "nan") for t in drv.FLOAT_TYPES if not any(c[0] == t and c[1].endswith("nan") for c in classes)}
    if missing:
        raise MachineryError("value generation missed float classes: %s" % sorted(missing))
    if not ok_traces:
        if rep.violations:
            rep.notes["self_test"] = "skipped: no accepted trace in this run"
        else:
            raise MachineryError("no trace was accepted and none was rejected")
    else:
        rep.notes["self_test"] = self_test(ok_traces)
    for t in ok_traces[:2] + ok_traces[-2:]:
        rep.sample(_describe(t))
    if not rep.cov["samples"] and traces:
        rep.sample(_describe(traces[0]))
    rep.cov["rule"] = ("cases = payloads (a sequence of typed values built under one byte-order/word-order combination, read back "
                       "over raw bytes and over fromRegisters(to_registers())); evaluations = recorded add / to_registers / decode "
                       "calls judged by TLC. Sources: every payload of <= 3 values PayloadMC built (11 numeric types, strings of 1-3 "
                       "bytes, bit groups of 3/8/11 bits, x 4 order combinations) concretised with real values; every edge bit "
                       "pattern of binary16/32/64 and the integer extremes alone and at odd alignment; seeded random payloads of "
                       "1-12 fields (integer extremes/negatives/powers of two, floats by bit pattern incl. subnormal/inf/NaN and "
                       "doubles that must be rounded, strings of 0-16 bytes, bit groups of 1-24 bits). distinct_nontrivial counts "
                       "distinct (byte order, word order, sequence of field types and lengths, parity of total length) among "
                       "payloads with at least one 16/32/64-bit field (for the others the orders cannot matter).")
    rep.cov["exhaustive"] = False
    rep.assumptions += ["TLC 1.8.0 and CommunityModules are correct",
                        "the canonical image of a value is struct.pack('>fmt', value) (two's complement / IEEE 754 conversion is "
                        "CPython's struct, trusted); decoded values are compared through the same packing, so -0.0 is distinguished "
                        "and a NaN is the NaN CPython hands back for that format",
                        "the conventional register image is as transcribed in spec/Payload.tla (Layout and the literal table "
                        "ConventionalImage, proved equal by PayloadMC); an odd payload is completed with one zero byte",
                        "the decoder pointer is observed through BinaryPayloadDecoder._pointer (its only state)",
                        "a bit group is recovered zero-padded to whole bytes, eight bits per decode_bits call"]
    return rep.finish()
