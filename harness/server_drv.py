"""In-process drivers for the seven server front-ends (DESIGN.md 2.5): no sockets, no threads, no real time.

Every driver offers   open() -> conn id,   feed(conn, data) -> {"writes": [(conn, bytes)], "raised": str, "closed": 0/1}
One entry of "writes" is one call of the transport's write/send/sendto (pymodbus writes one frame per call).
"""
import asyncio
import socketserver

from vcommon import import_repo

import_repo()
from pymodbus.factory import ServerDecoder  # noqa: E402
from pymodbus.device import ModbusControlBlock  # noqa: E402
from pymodbus.datastore import ModbusServerContext  # noqa: E402
import pymodbus.server.sync as S  # noqa: E402
import pymodbus.server.async_io as A  # noqa: E402
import pymodbus.server.asynchronous as T  # noqa: E402
from framing_drv import FRAMERS  # noqa: E402
import dm  # noqa: E402


def reset_singletons():
    mcb = ModbusControlBlock()
    mcb.ListenOnly = False
    try:
        mcb.reset()
    except Exception:
        pass


class _Stub:
    pass


def make_server_stub(kind, context, cfg, cls=None):
    """The server object the threaded handlers consult.  With `cls` (ModbusTcpServer / ModbusUdpServer / ModbusSerialServer) the REAL
    server class is constructed - with the socket binding and the serial port patched out - so that what its constructor does with
    `ignore_missing_slaves`, `broadcast_enable`, `framer` and the context reaches the handlers as in a real server.  If that is not
    possible (a constructor that insists on real I/O), a plain attribute holder with the documented attributes is used."""
    if cls is not None:
        srv = _construct_real(cls, kind, context, cfg)
        if srv is not None:
            return srv
    srv = _Stub()
    srv.context = context
    srv.framer = FRAMERS[kind]
    srv.decoder = ServerDecoder()
    srv.threads = []
    srv.ignore_missing_slaves = bool(cfg["ignore"])
    srv.broadcast_enable = bool(cfg["broadcast"])
    srv.active_connections = {}
    srv.control = ModbusControlBlock()
    return srv


def _construct_real(cls, kind, context, cfg):
    import socketserver as _ss
    import serial as _serial

    class _NoPort:
        def __init__(self, *a, **k):
            self.is_open = True

        def close(self):
            pass

        def read(self, n=1):
            return b""

        def write(self, data):
            return len(data)
    saved = [(_ss.TCPServer, "server_bind", _ss.TCPServer.server_bind), (_ss.TCPServer, "server_activate", _ss.TCPServer.server_activate),
             (_ss.UDPServer, "server_bind", _ss.UDPServer.server_bind), (_ss.UDPServer, "server_activate", _ss.UDPServer.server_activate),
             (_serial, "Serial", _serial.Serial)]
    try:
        _ss.TCPServer.server_bind = lambda self: None
        _ss.TCPServer.server_activate = lambda self: None
        _ss.UDPServer.server_bind = lambda self: None
        _ss.UDPServer.server_activate = lambda self: None
        _serial.Serial = _NoPort
        kw = {"framer": FRAMERS[kind], "ignore_missing_slaves": bool(cfg["ignore"]), "broadcast_enable": bool(cfg["broadcast"])}
        if cls is S.ModbusSerialServer:
            kw.update(port="/dev/null", timeout=0.01)
        else:
            kw.update(address=("127.0.0.1", 0))
        try:
            srv = cls(context, **kw)
        except Exception:
            return None
        try:
            sock = getattr(srv, "socket", None)
            if sock is not None and hasattr(sock, "close") and not isinstance(sock, _NoPort):
                sock.close()
        except Exception:
            pass
        for attr in ("context", "framer", "decoder", "ignore_missing_slaves", "broadcast_enable"):
            if not hasattr(srv, attr):
                return None
        if not hasattr(srv, "threads"):
            srv.threads = []
        return srv
    finally:
        for obj, name, val in saved:
            setattr(obj, name, val)


class _Base:
    supports_broadcast = True
    datagram = False

    def __init__(self, kind, context, cfg):
        self.kind, self.context, self.cfg = kind, context, cfg
        self.writes = []
        self.nconn = 0

    def _w(self, conn, data):
        self.writes.append((conn, bytes(data)))

    def open(self):
        self.nconn += 1
        return self.nconn

    def close(self):
        pass


# ---- synchronous (socketserver) handlers ------------------------------------------------------------

class _FakeSock:
    def __init__(self, drv, conn):
        self.drv, self.conn = drv, conn
        self.pending = None
        self.handler = None
        self.stop_on_empty = False
        self.empties = 0

    def recv(self, n):
        if self.pending is not None:
            d, self.pending = self.pending, None
            return d
        if self.stop_on_empty and self.handler is not None:
            self.handler.running = False
        self.empties += 1
        return b""

    read = recv

    def send(self, data):
        self.drv._w(self.conn, data)
        return len(data)

    write = send

    def sendto(self, data, addr):
        # a datagram goes where it is addressed, not to whoever sent the request being served
        self.drv._w(addr[1] if isinstance(addr, tuple) and len(addr) == 2 and addr[0] == "peer" else 0, data)
        return len(data)


POISONED = []      # reasons; once a handler of this process hangs, process-wide state (locks, singletons) may be stuck with it
HANG_S = 20        # a handler that has not finished with a chunk after this many (real) seconds is reported as hanging


def _watchdog_call(fn):
    """run fn() in a helper thread; returns (result, exception name, hung).  A handler that blocks for ever (a lock that is never
    released, a read that never returns) must show up as an observation, not stop the check."""
    import threading
    box = {}

    def run():
        try:
            box["res"] = fn()
        except Exception as ex:       # noqa: BLE001
            box["exc"] = ex
    th = threading.Thread(target=run, daemon=True)
    th.start()
    th.join(HANG_S)
    if th.is_alive():
        return None, None, True
    return box.get("res"), box.get("exc"), False


def safe_feed(fe, conn, data):
    """fe.feed(conn, data) under the watchdog.  The threaded drivers have their own hand-off watchdog; the asyncio / Twisted drivers
    run the handler in the caller's thread, so the call itself is supervised.  After a hang nothing more is fed in this process."""
    if POISONED:
        return {"writes": [], "raised": "", "closed": 1, "note": "skipped after a hang"}
    if fe.name in ("aioTcp", "aioUdp", "twTcp", "twUdp"):
        r, ex, hung = _watchdog_call(lambda: fe.feed(conn, data))
        if hung:
            POISONED.append(fe.name)
            return {"writes": [], "raised": "HANG", "closed": 0}
        if ex is not None:
            raise ex
        return r
    return fe.feed(conn, data)


class _LoopSock:
    """A blocking scripted socket for a handler whose serving loop runs in its own thread, with a strict hand-off: the driver
    queues one item (bytes, the idle time-out marker, or b"" = the peer closed) and waits until the handler has consumed it and
    blocks in recv() again (or has left its loop).  So exactly one of the two threads runs at any time: no scheduling freedom."""
    TIMEOUT = object()

    def __init__(self, drv, conn):
        import collections
        import threading
        self.drv, self.conn = drv, conn
        self.cv = threading.Condition()
        self.items = collections.deque()
        self.waiting = False
        self.dead = False
        self.hung = False
        self.raised = ""

    def recv(self, n):
        with self.cv:
            self.waiting = True
            self.cv.notify_all()
            while not self.items:
                if not self.cv.wait(30):
                    self.waiting = False
                    return b""            # the driver went away: behave like a closed peer so the thread ends
            self.waiting = False
            it = self.items.popleft()
            if it is not self.TIMEOUT and len(it) > n:
                self.items.appendleft(it[n:])      # a socket hands out at most n bytes per call
                it = it[:n]
        if it is self.TIMEOUT:
            import socket
            raise socket.timeout("timed out")
        return it

    read = recv

    def send(self, data):
        self.drv._w(self.conn, data)
        return len(data)

    write = send

    def push(self, item):
        """queue one item and wait until the handler is idle again; False if the hand-off did not complete (the handler hangs)"""
        with self.cv:
            if self.dead:
                return True
            self.items.append(item)
            self.cv.notify_all()
            ok = self.cv.wait_for(lambda: self.dead or (self.waiting and not self.items), timeout=HANG_S)
            if not ok:
                self.hung = True          # the handler neither came back for more input nor left its loop: it hangs
                POISONED.append("threaded handler")
        return ok


class SyncTcp(_Base):
    """ModbusConnectedRequestHandler: handle() - the real serving loop - runs once per connection, in its own thread, from the
    first byte to the close of the connection (loop-local state such as reset_frame lives as long as in a real server)."""
    name = "syncTcp"

    def __init__(self, kind, context, cfg):
        super().__init__(kind, context, cfg)
        self.srv = make_server_stub(kind, context, cfg, S.ModbusTcpServer)
        self.h = {}

    def open(self):
        import threading
        c = super().open()
        sock = _LoopSock(self, c)

        class H(S.ModbusConnectedRequestHandler):
            def __init__(hs, request, client_address, server):   # noqa: N805 - no handle() in the constructor
                hs.request, hs.client_address, hs.server = request, client_address, server
                hs.setup()
        h = H(sock, ("peer", c), self.srv)

        def loop():
            try:
                h.running = True
                h.handle()
            except Exception as ex:      # an exception leaving handle(): socketserver would print it and drop the connection
                sock.raised = type(ex).__name__
            finally:
                with sock.cv:
                    sock.dead = True
                    sock.cv.notify_all()
        th = threading.Thread(target=loop, daemon=True)
        th.start()
        with sock.cv:
            sock.cv.wait_for(lambda: sock.dead or sock.waiting, timeout=60)
        self.h[c] = (h, sock, th)
        return c

    def feed(self, conn, data):
        h, sock, th = self.h[conn]
        self.writes = []
        if sock.dead:
            return {"writes": [], "raised": "", "closed": 1}
        if sock.hung:
            return {"writes": [], "raised": "HANG", "closed": 0}
        # an empty chunk is not a TCP event; it stands for an idle period in which recv() times out
        ok = sock.push(bytes(data) if len(data) else _LoopSock.TIMEOUT)
        raised, sock.raised = sock.raised, ""
        if not ok:
            raised = raised or "HANG"
        return {"writes": list(self.writes), "raised": raised, "closed": 1 if sock.dead else 0}

    def close(self):
        for c, (h, sock, th) in self.h.items():
            if not sock.dead and not sock.hung:
                sock.push(b"")            # the peer closes: recv() returns b"" and the loop ends
            th.join(5 if not sock.hung else 0.01)


class SyncSerial(_Base):
    """ModbusSingleRequestHandler (the serial server's handler): its serving loop runs once, in its own thread, for the whole
    history (strict hand-off as for SyncTcp), so a loop that ends or a handler that stops itself stays stopped."""
    name = "syncSerial"

    def __init__(self, kind, context, cfg):
        import threading
        super().__init__(kind, context, cfg)
        self.srv = make_server_stub(kind, context, cfg, S.ModbusSerialServer)
        self.sock = _LoopSock(self, 1)
        self.h = S.CustomSingleRequestHandler(self.sock, ("dev", "dev"), self.srv)
        sock, h = self.sock, self.h

        def loop():
            try:
                h.running = True
                h.handle()
            except Exception as ex:      # ModbusSerialServer.serve_forever has no safety net: this kills the server
                sock.raised = type(ex).__name__
            finally:
                with sock.cv:
                    sock.dead = True
                    sock.cv.notify_all()
        self.th = threading.Thread(target=loop, daemon=True)
        self.th.start()
        with sock.cv:
            sock.cv.wait_for(lambda: sock.dead or sock.waiting, timeout=60)

    def open(self):
        self.nconn = 1
        return 1

    def feed(self, conn, data):
        self.writes = []
        sock = self.sock
        if sock.dead:
            # the serving loop has ended: a serial server has nothing that would start it again
            raised, sock.raised = sock.raised, ""
            return {"writes": [], "raised": raised, "closed": 0, "note": "serving loop ended"}
        if sock.hung:
            return {"writes": [], "raised": "HANG", "closed": 0}
        # (an empty chunk is an idle serial line: the port's read time-out elapses and read() returns nothing; the loop must go on)
        ok = sock.push(bytes(data))
        raised, sock.raised = sock.raised, ""
        if not ok:
            raised = raised or "HANG"
        return {"writes": list(self.writes), "raised": raised, "closed": 0}

    def close(self):
        if not self.sock.dead:
            self.h.running = False
            with self.sock.cv:
                self.sock.items.append(b"")
                self.sock.cv.notify_all()
        self.th.join(5 if not self.sock.hung else 0.01)


class SyncUdp(_Base):
    """ModbusDisconnectedRequestHandler: socketserver builds one handler per datagram."""
    name = "syncUdp"
    datagram = True

    def __init__(self, kind, context, cfg):
        super().__init__(kind, context, cfg)
        self.srv = make_server_stub(kind, context, cfg, S.ModbusUdpServer)

    def feed(self, conn, data):
        self.writes = []
        raised = ""
        sock = _FakeSock(self, conn)
        if getattr(self, "hung", False):
            return {"writes": [], "raised": "HANG", "closed": 0}
        _r, ex, hung = _watchdog_call(lambda: S.ModbusDisconnectedRequestHandler((bytes(data), sock), ("peer", conn), self.srv))
        if hung:
            self.hung = True          # a single-threaded UDP server is stuck in this request for good
            POISONED.append("udp handler")
            return {"writes": list(self.writes), "raised": "HANG", "closed": 0}
        if ex is not None:           # socketserver.handle_error confines it to this request
            raised = "confined:" + type(ex).__name__
        return {"writes": list(self.writes), "raised": "" if raised.startswith("confined:") else raised,
                "closed": 0, "note": raised}


# ---- asyncio handlers -------------------------------------------------------------------------------------

class _AioTransport:
    def __init__(self, drv, conn):
        self.drv, self.conn, self.closed = drv, conn, False

    def get_extra_info(self, name, default=None):
        return ("peer", self.conn)

    def write(self, data):
        self.drv._w(self.conn, data)

    def sendto(self, data, addr=None):
        self.drv._w(addr[1] if isinstance(addr, tuple) else self.conn, data)

    def close(self):
        self.closed = True

    def is_closing(self):
        return self.closed

    def abort(self):
        self.closed = True


class AioTcp(_Base):
    name = "aioTcp"

    def __init__(self, kind, context, cfg):
        super().__init__(kind, context, cfg)
        self.loop = asyncio.new_event_loop()
        self.srv = make_server_stub(kind, context, cfg)
        self.h = {}

    def _run(self, coro):
        asyncio.set_event_loop(self.loop)
        return self.loop.run_until_complete(coro)

    async def _drain(self, h):
        for _ in range(50):
            await asyncio.sleep(0)
            if h.receive_queue.empty():
                await asyncio.sleep(0)
                await asyncio.sleep(0)
                break

    def open(self):
        c = super().open()
        tr = _AioTransport(self, c)

        async def mk():
            h = A.ModbusConnectedRequestHandler(self.srv)
            h.connection_made(tr)
            await asyncio.sleep(0)
            return h
        self.h[c] = (self._run(mk()), tr)
        return c

    def feed(self, conn, data):
        h, tr = self.h[conn]
        self.writes = []
        raised = ""
        if tr.closed:
            return {"writes": [], "raised": "", "closed": 1}

        async def step():
            h.data_received(bytes(data))
            await self._drain(h)
        try:
            self._run(step())
        except Exception as ex:
            raised = type(ex).__name__
        if h.handler_task.done() and not h.handler_task.cancelled() and h.handler_task.exception() is not None:
            raised = raised or ("task:" + type(h.handler_task.exception()).__name__)
        if tr.closed and h.running:
            # transport.close() -> the loop would call connection_lost(None)
            try:
                self._run(self._lost(h))
            except Exception as ex:
                raised = raised or type(ex).__name__
        return {"writes": list(self.writes), "raised": raised, "closed": 1 if tr.closed else 0}

    async def _lost(self, h):
        h.connection_lost(None)
        await asyncio.sleep(0)

    def close(self):
        async def fin():
            for h, tr in self.h.values():
                if h.running:
                    try:
                        h.connection_lost(None)      # cancels the handler task and clears `running`, as the loop would
                    except Exception:
                        h.running = False
                        h.handler_task.cancel()
            for _ in range(4):
                await asyncio.sleep(0)
        try:
            self._run(fin())
        except Exception:
            pass
        self.loop.close()


class AioUdp(AioTcp):
    name = "aioUdp"
    datagram = True

    def __init__(self, kind, context, cfg):
        super().__init__(kind, context, cfg)
        self.tr = _AioTransport(self, 0)

        async def mk():
            h = A.ModbusDisconnectedRequestHandler(self.srv)
            h.connection_made(self.tr)
            await asyncio.sleep(0)
            return h
        self.hh = self._run(mk())
        self.h = {0: (self.hh, self.tr)}

    def open(self):
        self.nconn += 1
        return self.nconn

    def feed(self, conn, data):
        self.writes = []
        raised = ""

        async def step():
            self.hh.datagram_received(bytes(data), ("peer", conn))
            await self._drain(self.hh)
        try:
            self._run(step())
        except Exception as ex:
            raised = type(ex).__name__
        t = self.hh.handler_task
        if t.done() and not t.cancelled() and t.exception() is not None:
            raised = raised or ("task:" + type(t.exception()).__name__)
        return {"writes": list(self.writes), "raised": raised, "closed": 0}


# ---- Twisted ---------------------------------------------------------------------------------------------------

class _TwTransport:
    def __init__(self, drv, conn):
        self.drv, self.conn, self.disconnecting = drv, conn, False

    def write(self, data, addr=None):
        self.drv._w(addr[1] if isinstance(addr, tuple) else self.conn, data)

    def loseConnection(self):
        self.disconnecting = True

    def getPeer(self):
        return _Stub()

    def getHost(self):
        return _Stub()


class TwTcp(_Base):
    """ModbusTcpProtocol; the reactor's policy (an exception leaving dataReceived disconnects that connection) is emulated."""
    name = "twTcp"
    supports_broadcast = False

    def __init__(self, kind, context, cfg):
        super().__init__(kind, context, cfg)
        self.factory = T.ModbusServerFactory(context, FRAMERS[kind], None, ignore_missing_slaves=bool(cfg["ignore"]))
        self.p = {}

    def open(self):
        c = super().open()
        p = self.factory.buildProtocol(None)
        tr = _TwTransport(self, c)
        p.transport = tr
        p.connectionMade()
        self.p[c] = [p, tr, False]
        return c

    def feed(self, conn, data):
        p, tr, dead = self.p[conn]
        self.writes = []
        if dead:
            return {"writes": [], "raised": "", "closed": 1}
        note = ""
        try:
            p.dataReceived(bytes(data))
        except Exception as ex:
            note = "reactor:" + type(ex).__name__
            self.p[conn][2] = True
        return {"writes": list(self.writes), "raised": "", "closed": 1 if self.p[conn][2] else 0, "note": note}


class TwUdp(_Base):
    """ModbusUdpProtocol; the reactor logs an exception leaving datagramReceived and goes on with the next datagram."""
    name = "twUdp"
    supports_broadcast = False
    datagram = True

    def __init__(self, kind, context, cfg):
        super().__init__(kind, context, cfg)
        self.p = T.ModbusUdpProtocol(context, FRAMERS[kind], None, ignore_missing_slaves=bool(cfg["ignore"]))
        self.p.transport = _TwTransport(self, 0)

    def feed(self, conn, data):
        self.writes = []
        note = ""
        try:
            self.p.datagramReceived(bytes(data), ("peer", conn))
        except Exception as ex:
            note = "reactor:" + type(ex).__name__
        return {"writes": list(self.writes), "raised": "", "closed": 0, "note": note}


FRONTENDS = {c.name: c for c in (SyncTcp, SyncSerial, SyncUdp, AioTcp, AioUdp, TwTcp, TwUdp)}
STREAM_FES = ["syncTcp", "aioTcp", "twTcp"]
DGRAM_FES = ["syncUdp", "aioUdp", "twUdp"]


def build_server_context(cfg, units):
    """units = [[uid, ctxcfg], ...] -> (ModbusServerContext, {uid: {blockid: block}})"""
    blocks = {}
    ctxs = {}
    shared = {}        # equal start values -> one list object handed to several blocks, also across units (dm.build_block)
    for uid, c in units:
        ctx, b = dm.build_context(c, shared=shared)
        ctxs[uid] = ctx
        blocks[uid] = b
    if cfg["single"]:
        sc = ModbusServerContext(slaves=ctxs[units[0][0]], single=True)
    else:
        sc = ModbusServerContext(slaves=dict(ctxs), single=False)
    return sc, blocks


def dump_units(blocks):
    return {u: dm.dump(b) for u, b in blocks.items()}


def diff_units(before, after):
    chg, ext = [], 0
    for u in before:
        c, e = dm.diff(before[u], after[u])
        ext |= e
        chg += [[u] + x for x in c]
    return chg, ext
