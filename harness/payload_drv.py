"""Driver for the payload engine (C19): hands sequences of typed values to the real
BinaryPayloadBuilder, reads them back through the real BinaryPayloadDecoder (over the raw bytes and
over fromRegisters(to_registers())) and records what each call did.  Values appear in the traces
only as canonical images (struct.pack('>fmt', value)), so 64-bit values and floats never become
TLC integers.  The recorded traces are judged by spec/PayloadTrace.tla, not here.
"""
import struct

from vcommon import import_repo, MachineryError

import_repo()
from pymodbus.payload import BinaryPayloadBuilder, BinaryPayloadDecoder  # noqa: E402
from pymodbus.constants import Endian  # noqa: E402

#        type   struct fmt, add method,        decode method
FIXED = {"u8": ("B", "add_8bit_uint", "decode_8bit_uint"),
         "i8": ("b", "add_8bit_int", "decode_8bit_int"),
         "u16": ("H", "add_16bit_uint", "decode_16bit_uint"),
         "i16": ("h", "add_16bit_int", "decode_16bit_int"),
         "f16": ("e", "add_16bit_float", "decode_16bit_float"),
         "u32": ("I", "add_32bit_uint", "decode_32bit_uint"),
         "i32": ("i", "add_32bit_int", "decode_32bit_int"),
         "f32": ("f", "add_32bit_float", "decode_32bit_float"),
         "u64": ("Q", "add_64bit_uint", "decode_64bit_uint"),
         "i64": ("q", "add_64bit_int", "decode_64bit_int"),
         "f64": ("d", "add_64bit_float", "decode_64bit_float")}
SIZE = {t: struct.calcsize(">" + f[0]) for t, f in FIXED.items()}
INT_TYPES = ("u8", "i8", "u16", "i16", "u32", "i32", "u64", "i64")
FLOAT_TYPES = ("f16", "f32", "f64")
ORDER_SENSITIVE = tuple(t for t in FIXED if SIZE[t] >= 2)
ORDERS = ("big", "little")


def endian(name):
    return {"big": Endian.Big, "little": Endian.Little}[name]


def image(t, v):
    """Canonical image of a value: network-order bytes (numbers), the bytes (strings), the bits (bit groups)."""
    if t in FIXED:
        return list(struct.pack(">" + FIXED[t][0], v))
    if t == "str":
        return list(v.encode() if isinstance(v, str) else v)
    if t == "bits":
        return [1 if b else 0 for b in v]
    raise MachineryError("unknown type %r" % (t,))


def _image_of_result(t, v):
    """Image of what decode_* returned; a value of the wrong kind has no image (recorded as raised)."""
    if t in FIXED:
        if t in INT_TYPES and (isinstance(v, bool) or not isinstance(v, int)):
            raise TypeError("decode returned %r" % type(v).__name__)
        if t in FLOAT_TYPES and not isinstance(v, float):
            raise TypeError("decode returned %r" % type(v).__name__)
        return list(struct.pack(">" + FIXED[t][0], v))
    if t == "str":
        if not isinstance(v, (bytes, bytearray)):
            raise TypeError("decode returned %r" % type(v).__name__)
        return list(v)
    if not isinstance(v, list) or not all(isinstance(b, (bool, int)) for b in v):
        raise TypeError("decode returned %r" % type(v).__name__)
    return [1 if b else 0 for b in v]


def _add(builder, t, v):
    if t in FIXED:
        getattr(builder, FIXED[t][1])(v)
    elif t == "str":
        builder.add_string(v)
    else:
        builder.add_bits(list(v))


def _regs_event(builder):
    ev = {"op": "regs", "regs": [], "all": [], "err": ""}
    try:
        ev["all"] = list(builder.to_string())
        regs = builder.to_registers()
        if not all(isinstance(r, int) and not isinstance(r, bool) and 0 <= r <= 0xFFFF for r in regs):
            raise ValueError("to_registers returned a non-register %r" % (regs[:4],))
        ev["regs"] = list(regs)
    except Exception as e:  # noqa: BLE001 - the failure is data for the trace
        ev["regs"] = []
        ev["err"] = type(e).__name__
    return ev


def _decode_calls(fields):
    """(type, size) of the decode calls that read the fields back: one per value, one per byte of a bit group."""
    calls = []
    for t, v in fields:
        if t in FIXED:
            calls.append((t, SIZE[t]))
        elif t == "str":
            calls.append((t, len(image(t, v))))
        else:
            calls += [("bits", 1)] * ((len(v) + 7) // 8)
    return calls


def _ptr(decoder):
    """the decoder's read position if it exposes one (private attribute; -1 = not observable: clause Pointer is then not judged)"""
    try:
        return int(getattr(decoder, "_pointer"))
    except Exception:  # noqa: BLE001
        return -1


def _decode_all(decoder, via, calls, events):
    for t, size in calls:
        ev = {"op": "dec", "via": via, "type": t, "size": size, "got": [], "ptr_before": -1, "ptr_after": -1, "err": ""}
        try:
            ev["ptr_before"] = _ptr(decoder)
            if t in FIXED:
                v = getattr(decoder, FIXED[t][2])()
            elif t == "str":
                v = decoder.decode_string(size)
            else:
                v = decoder.decode_bits()
            ev["got"] = _image_of_result(t, v)
        except Exception as e:  # noqa: BLE001
            ev["got"] = []
            ev["err"] = type(e).__name__
        ev["ptr_after"] = _ptr(decoder)
        events.append(ev)


def run_payload(tid, bo, wo, fields, regs_each=False, vias=("bytes", "regs")):
    """fields = [(type, python value)].  Returns the trace dict for spec/PayloadTrace.tla."""
    BO, WO = endian(bo), endian(wo)
    events = []
    builder = BinaryPayloadBuilder(byteorder=BO, wordorder=WO)
    for n, (t, v) in enumerate(fields):
        ev = {"op": "add", "type": t, "img": image(t, v), "out": [], "err": ""}
        try:
            before = builder.to_string()
            _add(builder, t, v)
            after = builder.to_string()
            # what this add appended; if the earlier bytes moved, the whole buffer is logged and cannot match
            ev["out"] = list(after[len(before):]) if after[:len(before)] == before else list(after)
        except Exception as e:  # noqa: BLE001
            ev["out"] = []
            ev["err"] = type(e).__name__
        events.append(ev)
        if regs_each and n + 1 < len(fields):
            events.append(_regs_event(builder))
    events.append(_regs_event(builder))
    calls = _decode_calls(fields)
    for via in vias:
        try:
            if via == "bytes":
                decoder = BinaryPayloadDecoder(builder.to_string(), byteorder=BO, wordorder=WO)
            else:
                decoder = BinaryPayloadDecoder.fromRegisters(builder.to_registers(), byteorder=BO, wordorder=WO)
        except Exception as e:  # noqa: BLE001
            for t, size in calls:
                events.append({"op": "dec", "via": via, "type": t, "size": size, "got": [], "ptr_before": -1,
                               "ptr_after": -1, "err": type(e).__name__})
            continue
        _decode_all(decoder, via, calls, events)
    return {"id": tid, "bo": bo, "wo": wo, "ev": events}


# ---------------------------------------------------------------------------------------------
# value generation
# ---------------------------------------------------------------------------------------------

def _int_range(t):
    bits = 8 * SIZE[t]
    return (0, (1 << bits) - 1) if t[0] == "u" else (-(1 << (bits - 1)), (1 << (bits - 1)) - 1)


def rand_int(t, rng):
    lo, hi = _int_range(t)
    kind = rng.randrange(6)
    if kind == 0:
        return rng.choice([lo, hi, 0, 1, hi - 1, lo + 1] + ([-1, -2] if lo < 0 else [hi // 2, hi // 2 + 1]))
    if kind == 1:       # around a power of two / a byte boundary
        v = (1 << rng.randrange(8 * SIZE[t])) + rng.choice([-1, 0, 1])
        if lo < 0 and rng.random() < 0.5:
            v = -v
        return min(hi, max(lo, v))
    if kind == 2:       # bytes all different, so every permutation shows
        raw = bytes(rng.sample(range(1, 256), SIZE[t]))
        return struct.unpack(">" + FIXED[t][0], raw)[0]
    if kind == 3 and lo < 0:
        return rng.randint(lo, -1)
    return rng.randint(lo, hi)


_F_EDGE = {
    "f16": [0x0000, 0x8000, 0x0001, 0x8001, 0x03FF, 0x0400, 0x7BFF, 0xFBFF, 0x7C00, 0xFC00, 0x7E00, 0xFE00,
            0x7C01, 0x7DFF, 0x3C00, 0xBC00, 0x3555],
    "f32": [0x00000000, 0x80000000, 0x00000001, 0x80000001, 0x007FFFFF, 0x00800000, 0x7F7FFFFF, 0xFF7FFFFF,
            0x7F800000, 0xFF800000, 0x7FC00000, 0xFFC00000, 0x7F800001, 0x7FBFFFFF, 0x7FFFFFFF, 0x3F800000,
            0xBF800000, 0x3EAAAAAB, 0x01020304],
    "f64": [0x0000000000000000, 0x8000000000000000, 0x0000000000000001, 0x8000000000000001, 0x000FFFFFFFFFFFFF,
            0x0010000000000000, 0x7FEFFFFFFFFFFFFF, 0xFFEFFFFFFFFFFFFF, 0x7FF0000000000000, 0xFFF0000000000000,
            0x7FF8000000000000, 0xFFF8000000000000, 0x7FF0000000000001, 0x7FF7FFFFFFFFFFFF, 0x7FFFFFFFFFFFFFFF,
            0x3FF0000000000000, 0xBFF0000000000000, 0x3FD5555555555555, 0x0102030405060708],
}


def float_class(t, raw):
    """Class of the IEEE image raw (bytes, network order): zero / subnormal / normal / inf / nan, with sign."""
    n = int.from_bytes(raw, "big")
    ebits, mbits = {"f16": (5, 10), "f32": (8, 23), "f64": (11, 52)}[t]
    sign = n >> (ebits + mbits)
    e = (n >> mbits) & ((1 << ebits) - 1)
    m = n & ((1 << mbits) - 1)
    if e == 0:
        c = "zero" if m == 0 else "subnormal"
    elif e == (1 << ebits) - 1:
        c = "inf" if m == 0 else "nan"
    else:
        c = "normal"
    return ("-" if sign else "+") + c


def rand_float(t, rng):
    """A Python float: from a bit pattern of the target format (edge patterns, random patterns: subnormals,
    infinities and NaNs by bit pattern) or a double that has to be rounded to the target format."""
    fmt = ">" + FIXED[t][0]
    kind = rng.randrange(5)
    if kind <= 1:
        bits = rng.choice(_F_EDGE[t])
    elif kind == 2:     # exponent field at an extreme: zero/subnormal or inf/NaN
        ebits, mbits = {"f16": (5, 10), "f32": (8, 23), "f64": (11, 52)}[t]
        e = rng.choice([0, (1 << ebits) - 1])
        bits = (rng.getrandbits(1) << (ebits + mbits)) | (e << mbits) | rng.getrandbits(mbits)
    elif kind == 3:
        bits = rng.getrandbits(8 * SIZE[t])
    else:
        # a double that is not representable in the narrower format (rounded by struct in add_*)
        lim = {"f16": 6.0e4, "f32": 3.0e38, "f64": 1.0e308}[t]
        v = rng.uniform(-1.0, 1.0) * rng.choice([1e-9, 1e-3, 1.0, 1e3, lim])
        try:
            struct.pack(fmt, v)
            return v
        except (OverflowError, struct.error):
            return 0.1
    return struct.unpack(fmt, bits.to_bytes(SIZE[t], "big"))[0]


def rand_string(rng, n=None):
    if n is None:
        n = rng.choice([0, 1, 1, 2, 2, 3, 3, 4, 5, 6, 7, 8, 9, 13, 16])
    kind = rng.randrange(4)
    if kind == 0:
        return "".join(rng.choice("abcXYZ019 _-") for _ in range(n))         # text (encoded by the builder)
    if kind == 3:
        # text whose encoding is longer than its character count (the field is as wide as the encoded bytes)
        return "".join(rng.choice(["\u00b0C", "\u03a9", "\u00e9", "a", "7", "\u20ac"]) for _ in range(max(1, n // 2)))
    if kind == 1:
        return bytes(rng.choice([0, 0xFF, 0x80, 0x7F, 0x0A]) for _ in range(n))
    return bytes(rng.randrange(256) for _ in range(n))


def rand_bits(rng, n=None):
    if n is None:
        n = rng.choice([1, 2, 3, 7, 8, 8, 8, 9, 15, 16, 16, 17, 24])
    kind = rng.randrange(4)
    if kind == 0:
        return [True] * n
    if kind == 1:
        return [False] * (n - 1) + [True]
    return [bool(rng.getrandbits(1)) for _ in range(n)]


def rand_value(t, rng):
    if t in INT_TYPES:
        return rand_int(t, rng)
    if t in FLOAT_TYPES:
        return rand_float(t, rng)
    if t == "str":
        return rand_string(rng)
    return rand_bits(rng)


ALL_TYPES = tuple(FIXED) + ("str", "bits")


def rand_fields(rng, nmin=1, nmax=12):
    n = rng.randint(nmin, nmax)
    # a payload of only order-free fields says nothing about orders: weight the multi-byte types
    pool = ALL_TYPES + ORDER_SENSITIVE
    return [(t, rand_value(t, rng)) for t in (rng.choice(pool) for _ in range(n))]


def concretise(items, rng):
    """A payload exported by PayloadMC (types, string lengths, bit patterns over symbolic bytes) as real values."""
    fields = []
    for it in items:
        t = it["type"]
        if t in FIXED:
            fields.append((t, rand_value(t, rng)))
        elif t == "str":
            fields.append((t, rand_string(rng, len(it["img"]))))
        elif rng.random() < 0.5:
            fields.append((t, [bool(b) for b in it["img"]]))
        else:
            fields.append((t, rand_bits(rng, len(it["img"]))))
    return fields
