"""C16: the Twisted client protocol driven along histories of the AsyncClient model (requests, replies in any order,
duplicates, unsolicited replies, connection loss, transaction-id wrap) with a StringTransport; judged by TLC."""
import copy
import os
import random
import struct

from vcommon import (Report, model_check, model_check_expect_violation, validate_traces, seed, MachineryError, SPEC,
                     open_findings, import_repo)

import_repo()
from twisted.internet.testing import StringTransport  # noqa: E402
from twisted.python.failure import Failure  # noqa: E402
from twisted.internet.error import ConnectionDone  # noqa: E402
from pymodbus.client.asynchronous.twisted import ModbusClientProtocol, ModbusSerClientProtocol  # noqa: E402
from pymodbus.factory import ClientDecoder  # noqa: E402
from pymodbus.transaction import ModbusSocketFramer, ModbusRtuFramer  # noqa: E402
from pymodbus.register_read_message import ReadHoldingRegistersRequest  # noqa: E402
from pymodbus.exceptions import ConnectionException  # noqa: E402
from framing_drv import pyframe  # noqa: E402


class Session:
    def __init__(self, variant):
        self.variant = variant
        if variant == "dict":
            self.p = ModbusClientProtocol(framer=ModbusSocketFramer(ClientDecoder()))
        else:
            self.p = ModbusSerClientProtocol(framer=ModbusRtuFramer(ClientDecoder()))
        self.tr = StringTransport()
        self.p.makeConnection(self.tr)
        self.fired = []
        self.ev = []
        self.nd = 0
        self.dfs = {}
        self.nested = []

    def _cb(self, d):
        def ok(reply):
            self.fired.append([d, int(reply.transaction_id) if self.variant == "dict" else int(reply.unit_id)])

        def err(f):
            from twisted.internet.defer import CancelledError
            if f.check(CancelledError):
                self.fired.append([d, 1004])
            elif f.check(ConnectionException):
                self.fired.append([d, 1001 if "not connected" in str(f.value) else 1000])
            else:
                self.fired.append([d, 1002])
        return ok, err

    def _guard(self, fn):
        self.fired = []
        try:
            fn()
        except Exception as ex:
            self.fired.append([0, 1003])
        return list(self.fired)

    def execute(self, uid, addr, retry_in_errback=False):
        self.nd += 1
        d = self.nd
        self.tr.clear()

        def go():
            df = self.p.execute(ReadHoldingRegistersRequest(addr, 1, unit=uid))
            self.dfs[d] = df
            ok, err = self._cb(d)
            if retry_in_errback:
                # application retry logic: when the request fails, issue it again from inside the errback
                def err2(f, err=err):
                    err(f)
                    self.nested.append((uid, addr))
                df.addCallbacks(ok, err2)
            else:
                df.addCallbacks(ok, err)
        fired = self._guard(go)
        w = self.tr.value()
        tid = struct.unpack(">H", w[:2])[0] if (self.variant == "dict" and len(w) >= 2) else (-1 if not w else 0)
        self.ev.append({"op": "exec", "d": d, "uid": uid, "tid": tid, "fired": fired})
        return d, tid

    def reply(self, tid, uid, cuts=(), exc=False):
        # (an exception reply is a reply like any other to the pairing: it fires the deferred of its request, via the callback)
        fr = pyframe("tcp" if self.variant == "dict" else "rtu", tid, 0, uid, bytes([0x83, 2]) if exc else bytes([3, 2, 0x12, 0x34]))
        pieces, pos = [], 0
        for c in list(cuts) + [len(fr)]:
            pieces.append(fr[pos:c])
            pos = c

        def go():
            for pc in pieces:
                if pc:
                    self.p.dataReceived(pc)
        self.ev.append({"op": "reply", "tid": tid, "uid": uid, "fired": self._guard(go), "pieces": [len(x) for x in pieces]})

    def cancel(self, d):
        """the application gives up on request d (Deferred.cancel())"""
        self.ev.append({"op": "cancel", "d": d, "fired": self._guard(lambda: self.dfs[d].cancel())})

    def raw(self, tid, uid, piece):
        """a fragment of a frame with transaction id `tid` arrives (recorded as a reply event of that id: for an id nobody waits for,
        a fragment and the whole frame are the same event to the model - nothing fires, nothing changes)"""
        self.ev.append({"op": "reply", "tid": tid, "uid": uid, "fired": self._guard(lambda: self.p.dataReceived(piece)), "pieces": [len(piece)]})

    def replies_coalesced(self, items):
        """several replies arrive in one read (items = [(tid, uid)])"""
        kind = "tcp" if self.variant == "dict" else "rtu"
        blob = b"".join(pyframe(kind, t, 0, u, bytes([3, 2, 0x12, 0x34])) for t, u in items)
        fired = self._guard(lambda: self.p.dataReceived(blob))
        # recorded as one reply event per frame; everything that fired is attributed to the events in order
        rest = list(fired)
        for n, (t, u) in enumerate(items):
            mine = [f for f in rest if f[1] == (t if self.variant == "dict" else u)][:1]
            for f in mine:
                rest.remove(f)
            if n == len(items) - 1:
                mine = mine + rest
            self.ev.append({"op": "reply", "tid": t, "uid": u, "fired": mine, "pieces": [-len(items)]})

    def lost(self):
        # requests re-issued from errbacks run *inside* connectionLost(): they are issued after the loss and must fail at once
        inner = []
        orig = self.nested

        class L(list):
            def append(l, item):            # noqa: N805
                uid, addr = item
                self.nd += 1
                d2 = self.nd
                before = len(self.fired)
                w0 = len(self.tr.value())
                try:
                    df = self.p.execute(ReadHoldingRegistersRequest(addr, 1, unit=uid))
                    ok, err = self._cb(d2)
                    df.addCallbacks(ok, err)
                except Exception:
                    self.fired.append([0, 1003])
                mine = [f for f in self.fired[before:] if f[0] == d2]
                for f in mine:
                    self.fired.remove(f)
                inner.append({"op": "exec", "d": d2, "uid": uid, "tid": -1 if len(self.tr.value()) == w0 else 0, "fired": mine})
        self.nested = L()
        fired = self._guard(lambda: self.p.connectionLost(Failure(ConnectionDone())))
        self.nested = orig
        self.ev.append({"op": "lost", "fired": fired})
        self.ev.extend(inner)

    def wrap(self, to):
        self.p.transaction.tid = to
        self.ev.append({"op": "wrap", "to": to, "fired": []})


def history(tid, variant, rng, tier):
    s = Session(variant)
    out = {}           # d -> (tid, uid)
    n = rng.randint(1, 6)
    if variant == "dict" and rng.random() < 0.4:
        s.wrap(rng.choice([65530, 65533, 65534, 65535]))
    lost = False
    cancelled_d = set()
    steps = rng.randint(n, n + 8)
    issued = 0
    for _ in range(steps):
        c = rng.random()
        if variant == "dict" and not lost and issued < n and ((not out and c > 0.75) or c > 0.97):
            # an unsolicited frame arrives in two segments with a request issued in between (so one of the two segments may arrive
            # while nothing is outstanding): the byte stream must stay aligned and the later reply must still fire its request
            cur = int(getattr(s.p.transaction, "tid", 0) or 0)
            used = {v[0] for v in out.values()}
            t = next(x for x in ((cur + 30000) % 65536, (cur + 30001) % 65536, (cur + 30002) % 65536) if x not in used)
            fr = pyframe("tcp", t, 0, 1, bytes([3, 2, 0x12, 0x34]))
            cut = rng.randint(1, len(fr) - 1)
            s.raw(t, 1, fr[:cut])
            uid = rng.choice([1, 2, 17])
            d, t2 = s.execute(uid, rng.randint(0, 100))
            issued += 1
            if t2 != -1:
                out[d] = (t2, uid)
            s.raw(t, 1, fr[cut:])
        elif (c < 0.45 and issued < n) or not out and issued < n:
            uid = rng.choice([1, 1, 2]) if variant == "fifo" else rng.choice([1, 2, 17])
            d, t = s.execute(uid, rng.randint(0, 100), retry_in_errback=(rng.random() < 0.25))
            issued += 1
            if not lost and t != -1:
                out[d] = (t, uid)
        elif c < 0.55 and len(out) >= 2 and not lost:
            ds = sorted(out) if variant == "fifo" else rng.sample(sorted(out), rng.randint(2, min(3, len(out))))
            ds = ds[:3]
            items = [out.pop(d) for d in ds]
            if variant == "dict" and rng.random() < 0.4:
                # a reply nobody waits for (or a duplicate of one just delivered) travels in the same segment, in front of wanted ones
                used = {v[0] for v in out.values()} | {x[0] for x in items}
                cur = int(getattr(s.p.transaction, "tid", 0) or 0)
                tu = next(x for x in ((cur + 20000) % 65536, (cur + 20001) % 65536, (cur + 20002) % 65536, (cur + 20003) % 65536) if x not in used)
                items.insert(rng.randrange(len(items)), (tu, 1))
            s.replies_coalesced(items)
        elif c < 0.75 and out and not lost:
            if variant == "dict":
                d = rng.choice(list(out))
            else:
                d = min(out)                   # a serial line answers in order
            t, uid = out.pop(d)
            cuts = (rng.randint(1, 8),) if rng.random() < 0.3 else ()
            s.reply(t, uid, cuts if rng.random() < 0.8 else (), exc=rng.random() < 0.2)
            if rng.random() < 0.15:
                s.reply(t, uid)                # duplicate
        elif c < 0.85 and not lost:
            if variant == "dict":
                used = {v[0] for v in out.values()}
                t = rng.choice([x for x in (0, 7, 999, 65535, rng.randint(0, 65535)) if x not in used])
                s.reply(t, rng.choice([1, 2]))     # unsolicited
            else:
                head_uid = out[min(out)][1] if out else 1
                s.reply(0, 9 if head_uid != 9 else 8)   # a reply from a unit nobody asked
        elif c < 0.89 and out and not lost and len(cancelled_d) < 2:
            d = rng.choice([x for x in sorted(out)])
            if d not in cancelled_d and d in s.dfs:
                cancelled_d.add(d)
                s.cancel(d)              # its reply still arrives later (the entry stays in `out`)
        elif c < 0.9 and variant == "dict" and out and not lost:
            # the counter wraps onto an id that is still outstanding (stands for 65535 completed requests in between)
            t0 = rng.choice([v[0] for v in out.values()])
            s.wrap((t0 - 1) % 65536)
        elif c < 0.95 and not lost:
            s.lost()
            lost = True
            out.clear()
    # end of history: everything outstanding is answered, or the connection is lost
    if not lost:
        if rng.random() < 0.5:
            for d in sorted(out):
                s.reply(*out[d])
        else:
            s.lost()
            lost = True
            if rng.random() < 0.5:
                s.execute(1, 5)
    return {"id": tid, "variant": variant, "ev": s.ev}


def tlc_histories(depth):
    """every behaviour of AsyncClientGen up to `depth` steps (exported by TLC)"""
    from vcommon import run_tlc, tlc_ok, parse_printed
    cfg = open(os.path.join(SPEC, "AsyncClientGen.cfg")).read().replace("GenDepth = 6", "GenDepth = %d" % depth)
    res = run_tlc("AsyncClientGen", None, workers=8, timeout=900, cfg_text=cfg)
    if not tlc_ok(res):
        raise MachineryError("AsyncClientGen failed:\n" + "\n".join(res["out"].splitlines()[-20:]))
    return parse_printed(res["out"], "HIST"), res


def replay_model_history(tid, hist, variant):
    """a TLC-generated history, written relative to the requests, replayed on the real protocol"""
    s = Session(variant)
    real = {}        # model deferred -> (real deferred, tid, uid)
    outstanding = []
    lost = False
    for h in hist:
        if h["op"] == "exec":
            uid = 1 if variant == "fifo" else 1 + (h["d"] % 3)
            d, t = s.execute(uid, 10 + h["d"])
            real[h["d"]] = (d, t, uid)
            if not lost and t != -1:
                outstanding.append(h["d"])
        elif h["op"] in ("reply", "dup") and h["d"] in real:
            if variant == "fifo" and h["op"] == "reply" and outstanding and outstanding[0] != h["d"]:
                continue                   # a serial line answers in order: out-of-order replies are not part of this variant
            if variant == "fifo" and h["op"] == "dup":
                continue                   # a second reply on a serial line is indistinguishable from the next reply
            _, t, uid = real[h["d"]]
            s.reply(t, uid)
            if h["d"] in outstanding and not lost:
                outstanding.remove(h["d"])
        elif h["op"] == "unsol":
            if variant == "dict":
                used = {v[1] for v in real.values()}
                s.reply(next(x for x in (4000, 4001, 4002, 4003, 4004, 4005, 4006, 4007, 4008) if x not in used), 1)
        elif h["op"] == "lost" and not lost:
            s.lost()
            lost = True
            outstanding = []
    if not lost:
        for md in list(outstanding):
            _, t, uid = real[md]
            s.reply(t, uid)
    return {"id": tid, "variant": variant, "ev": s.ev, "source": "tlc"}


def run(prop, tier):
    rng = random.Random(seed() * 7 + 16)
    rep = Report(prop, tier, "model_checking")
    res = model_check("AsyncClientMC", "AsyncClientMC.cfg", workers=8)
    rep.add_mc(res, "AsyncClientMC.cfg")
    base = open(os.path.join(SPEC, "AsyncClientMC.cfg")).read()
    bad, _ = model_check_expect_violation("AsyncClientMC", None, workers=8, cfg_text=base.replace("ADev = {}", 'ADev = {"OverwritesPending"}'))
    if not bad:
        raise MachineryError("AsyncClientMC with deviation OverwritesPending satisfies every property: vacuous")
    rep.notes["model_deviations_rejected_by_tlc"] = ["OverwritesPending"]
    n = 3000 if tier == "quick" else 60000
    traces = [history("a%d" % k, "dict" if k % 4 else "fifo", rng, tier) for k in range(n)]
    hists, gres = tlc_histories(7 if tier == "quick" else 9)
    rep.add_mc(gres, "AsyncClientGen (behaviour export)")
    rep.notes["tlc_generated_histories_replayed"] = len(hists)
    for j, h in enumerate(hists):
        traces.append(replay_model_history("g%d" % j, h, "dict"))
        if j % 5 == 0:
            traces.append(replay_model_history("f%d" % j, h, "fifo"))
    verdicts, st = validate_traces("AsyncTrace", "AsyncTrace.cfg", traces)
    rep.add_tv(st, len(traces), sum(len(t["ev"]) for t in traces))
    known = {f["id"]: f for f in open_findings(prop)}
    ok = []
    for t in traces:
        v = verdicts[t["id"]]
        if v["status"] == "OK":
            ok.append(t)
            rep.distinct((t["variant"], tuple((e["op"], len(e["fired"])) for e in t["ev"])))
            continue
        fid = None
        for kid, f in known.items():
            sig = f.get("signature", {})
            if sig.get("variant") == t["variant"] and set(v["clauses"]) <= set(sig.get("clauses", [])) \
                    and t["ev"][v["step"] - 1]["op"] in sig.get("ops", []):
                fid = kid
        if fid:
            rep.known(fid)
        else:
            rep.violation("%s-%s" % (t["variant"], "-".join(sorted(v["clauses"]))),
                          {"property": prop, "engine": "AsyncTrace", "tag": t["variant"], "trace": t, "verdict": v})
    b = next((t for t in ok if any(e["op"] == "reply" and e["fired"] for e in t["ev"])), None)
    if b is None:
        raise MachineryError("self-test: no accepted history with a fired reply")
    m = copy.deepcopy(b)
    m["id"] = "st"
    e = next(e for e in m["ev"] if e["op"] == "reply" and e["fired"])
    e["fired"][0][0] += 1
    sv, _ = validate_traces("AsyncTrace", "AsyncTrace.cfg", [m], shards=1)
    if sv["st"]["status"] != "FAIL":
        raise MachineryError("self-test: corrupted trace accepted")
    rep.notes["self_test"] = sv["st"]["clauses"]
    for t in ok[:2]:
        rep.sample({"id": t["id"], "variant": t["variant"], "events": t["ev"][:8]})
    rep.cov["rule"] = ("cases = events of seeded histories on the real Twisted ModbusClientProtocol (dictionary variant, MBAP framing) and "
                       "ModbusSerClientProtocol (FIFO variant, RTU framing) with a StringTransport: up to 6 outstanding requests, replies in "
                       "any order (dict) / in order (fifo), whole or split in two, duplicates, unsolicited replies, connection loss at any "
                       "point, requests after the loss, counter presets that wrap onto outstanding ids; distinct_nontrivial counts distinct "
                       "(variant, sequence of (event kind, number of deferreds fired)) among accepted histories.")
    rep.assumptions += ["TLC 1.8.0 and CommunityModules are correct",
                        "a transaction-id wrap is produced by presetting the counter (stands for 65535 completed requests in between)",
                        "the asyncio and tornado clients cannot be imported on this interpreter and are not covered"]
    return rep.finish()
