"""C15: real threads on one real synchronous client under a deterministic scheduler (one runnable thread at a
time, pre-emption at every transport operation, virtual sleep and lock operation), traces judged by TLC."""
import copy
import random
import struct
import threading

import client_drv as C
from vcommon import (Report, model_check, model_check_expect_violation, validate_traces, seed, MachineryError, SPEC)
import os


class Abort(BaseException):
    pass


class Sched:
    def __init__(self, picker):
        self.go = {}
        self.ctl = threading.Semaphore(0)
        self.state = {}          # t -> "ready" | "blocked" | "done"
        self.blocked_on = {}
        self.events = []
        self.picker = picker
        self.aborting = False
        self.current = None
        self.steps = 0
        self.clock = None        # virtual clock (time-limited lock waits)
        self.deadline = {}

    def register(self, t):
        self.go[t] = threading.Semaphore(0)
        self.state[t] = "ready"

    def yield_(self, what):
        t = self.current
        if t is None or threading.current_thread().name != "w%d" % t:
            return
        if what in ("send", "recv", "connect"):
            self.events.append({"th": t, "op": what})
        self.ctl.release()
        self.go[t].acquire()
        if self.aborting:
            raise Abort()

    def run(self):
        while True:
            now = self.clock.t if self.clock is not None else 0.0
            runnable = [t for t, s in self.state.items() if s == "ready" or
                        (s == "blocked" and (self.blocked_on[t].owner is None or
                                             (self.deadline.get(t) is not None and now >= self.deadline[t])))]
            if not runnable:
                if all(s == "done" for s in self.state.values()):
                    return
                waits = [self.deadline[t] for t, s in self.state.items() if s == "blocked" and self.deadline.get(t) is not None]
                if waits and self.clock is not None:
                    self.clock.t = max(self.clock.t, min(waits))     # everybody waits: time passes until the first time-limited wait ends
                    continue
                self.events.append({"th": 0, "op": "deadlock"})
                self._abort()
                return
            self.steps += 1
            if self.steps > 20000:
                self.events.append({"th": 0, "op": "deadlock"})
                self._abort()
                return
            t = self.picker(runnable, self.steps)
            self.current = t
            self.go[t].release()
            if not self.ctl.acquire(timeout=20):
                self.events.append({"th": 0, "op": "deadlock"})
                self._abort()
                raise MachineryError("scheduler: worker %d did not yield within 20 s" % t)

    def _abort(self):
        self.aborting = True
        for t, s in self.state.items():
            if s != "done":
                self.go[t].release()


class SLock:
    """re-entrant lock whose blocking is visible to the scheduler"""

    def __init__(self, sched, broken=False):
        self.sched, self.owner, self.depth, self.broken = sched, None, 0, broken

    def acquire(self, blocking=True, timeout=-1):
        if self.broken:
            self.sched.yield_("lock")
            return True
        me = self.sched.current
        self.sched.yield_("lock")
        clock = self.sched.clock
        limit = None
        if not blocking:
            limit = clock.t if clock is not None else 0.0
        elif timeout is not None and timeout >= 0 and clock is not None:
            limit = clock.t + timeout           # threading semantics: wait at most `timeout` seconds (virtual time here)
        while self.owner is not None and self.owner != me:
            if limit is not None and (clock is None or clock.t >= limit):
                self.sched.state[me] = "ready"
                self.sched.deadline.pop(me, None)
                return False
            self.sched.state[me] = "blocked"
            self.sched.blocked_on[me] = self
            self.sched.deadline[me] = limit
            self.sched.yield_("lockwait")
        self.sched.state[me] = "ready"
        self.sched.deadline.pop(me, None)
        self.owner = me
        self.depth += 1
        if self.depth == 1:
            self.sched.events.append({"th": me, "op": "lock"})       # the outermost acquire succeeded (refinement trace)
        return True

    def release(self):
        if self.broken:
            return
        self.depth -= 1
        if self.depth == 0:
            self.sched.events.append({"th": self.owner, "op": "unlock"})
            self.owner = None

    __enter__ = acquire

    def __exit__(self, *a):
        self.release()


def run_schedule(tid, nthreads, k, picker, rng, broken_lock=False, client_name="tcp", units_differ=False, drop_first_of=0,
                 connfail_first=False, slow=False, broadcaster=0, badreq=0):
    """drop_first_of = t: the peer does not answer thread t's first transmission (the client retries after a back-off sleep);
    connfail_first: the very first connection attempt fails (that caller gets a ConnectionException, the others must go on)"""
    clock = C.VClock()
    kind0 = C.CLIENTS[client_name][0]
    line = C.Line(clock, kind0)
    sched = Sched(picker)
    sched.clock = clock
    if hasattr(picker, "__closure__") and getattr(picker, "_sched_ref", None) is not None:
        picker._sched_ref["s"] = sched
    frames = []
    delayed = []

    dropped = {"n": 0}

    def on_write(data):
        frames.append(bytes(data))
        if kind0 == "tcp":
            tid_, = struct.unpack(">H", data[:2])
            uid_ = data[6]
            addr, qty = struct.unpack(">HH", data[8:12])
            if uid_ == 0 and broadcaster:
                return {"rx": b""}        # a broadcast write: nobody answers
        else:                 # RTU: unit, function, address, quantity, CRC
            tid_, uid_ = 0, data[0]
            addr, qty = struct.unpack(">HH", data[2:6])
        if drop_first_of and addr == 100 * drop_first_of and dropped["n"] == 0:
            dropped["n"] = 1
            frames.pop()              # (the retransmission is the same frame: keep NoDup about distinct requests)
            return {"rx": b""}
        rsp = bytes([3, 2 * qty]) + struct.pack(">H", addr) * qty
        fr = C.pyframe(kind0, tid_, 0, uid_, rsp)
        lat = (addr % 3)
        if slow:
            # every reply arrives within the client's time-out, but late in it: callers queue for longer than one whole transaction
            line.pending.append([clock.t + 0.45 + 0.2 * lat, fr])
            return {"rx": b""}
        if lat == 0:
            return {"rx": fr}
        line.pending.append([clock.t + 0.13 * lat, fr])     # replies of different latencies (virtual time)
        return {"rx": b""}

    def hook(what):
        sched.yield_(what)
    line.on_write = on_write
    line.hook = hook
    clock.hook = hook
    calls = []
    state = {}
    import pymodbus.transaction as TX
    from pymodbus.register_read_message import ReadHoldingRegistersRequest
    # every way the library may name its lock class: `from threading import RLock / Lock` or `import threading` in the modules
    # that could own the transaction lock.  Each name is replaced by a factory of scheduler-aware (re-entrant) locks for this run.
    import pymodbus.client.sync as CSY
    import threading as _thr
    factory = lambda *a, **k: SLock(sched, broken=broken_lock)

    class _ThreadingShim:
        RLock = staticmethod(factory)
        Lock = staticmethod(factory)

        def __getattr__(self, name):
            return getattr(_thr, name)
    patched = []
    for mod in (TX, CSY):
        for name in ("RLock", "Lock"):
            if hasattr(mod, name):
                patched.append((mod, name, getattr(mod, name)))
                setattr(mod, name, factory)
        if getattr(mod, "threading", None) is _thr:
            patched.append((mod, "threading", _thr))
            setattr(mod, "threading", _ThreadingShim())
    try:
        with C.Patches(clock, line):
            kind, client, dec = C.make_client(client_name, {"retries": 1 if drop_first_of else 0, "roe": 1 if drop_first_of else 0, "roi": 0,
                                                            "broadcast": 1 if broadcaster else 0}, timeout=1)
            if connfail_first:
                line.connect_ok = False
                orig_hook = line.hook

                def hook2(what):
                    if what == "connect" and not line.connect_ok:
                        line.connect_ok_next = True
                    orig_hook(what)
                line.hook = hook2
            # (the scheduler-aware lock stays installed for the whole run: locks created lazily are replaced too)

            def worker(t):
                sched.go[t].acquire()
                try:
                    if sched.aborting:
                        return
                    for j in range(k):
                        want = 100 * t + j
                        res = {"th": t, "want": want, "gotv": -1, "kind": "none"}
                        try:
                            if t == badreq and j == 0:
                                # this caller hands over a request that cannot be encoded (a register value beyond 16 bits): its call
                                # fails with an exception - that is the caller's problem - and nobody else may be affected by it
                                from pymodbus.register_write_message import WriteSingleRegisterRequest as _W
                                try:
                                    client.execute(_W(want, 70000, unit=1))
                                    res["kind"] = "other:accepted"
                                except Abort:
                                    raise
                                except Exception:
                                    res["kind"] = "badreq"
                                calls.append(res)
                                sched.events.append({"th": t, "op": "done", "res": "error"})
                                continue
                            if t == broadcaster:
                                # this caller broadcasts (unit 0, broadcast_enable): a transmission without a reply - it still is a
                                # transaction of the shared client and must not be sent into another caller's transaction
                                from pymodbus.register_write_message import WriteSingleRegisterRequest
                                r = client.execute(WriteSingleRegisterRequest(want, 1 + j, unit=0))
                                res["kind"] = "broadcast" if isinstance(r, (bytes, str)) else "other:" + type(r).__name__
                                r = None
                            else:
                                r = client.execute(ReadHoldingRegistersRequest(want, 1 + t, unit=t if units_differ else 1))
                            if t == broadcaster:
                                pass
                            elif r is not None and not isinstance(r, Exception) and hasattr(r, "registers"):
                                res["kind"] = "reply"
                                res["gotv"] = int(r.registers[0]) if r.registers else -2
                            elif isinstance(r, Exception):
                                res["kind"] = "error"
                        except Abort:
                            raise
                        except Exception as ex:
                            res["kind"] = "raised:" + type(ex).__name__
                            if connfail_first and type(ex).__name__ == "ConnectionException" and not state.get("cf"):
                                state["cf"] = 1
                                res["kind"] = "connfail"        # the scripted connection failure: excepted by the statement
                                line.connect_ok = True
                        calls.append(res)
                        sched.events.append({"th": t, "op": "done",
                                             "res": "own" if (res["kind"] == "reply" and res["gotv"] == want) else
                                                    ("other" if res["kind"] == "reply" else ("bcast" if res["kind"] == "broadcast" else "error"))})
                except Abort:
                    pass
                finally:
                    sched.state[t] = "done"
                    sched.ctl.release()
            ths = []
            for t in range(1, nthreads + 1):
                sched.register(t)
                th = threading.Thread(target=worker, args=(t,), name="w%d" % t, daemon=True)
                ths.append(th)
                th.start()
            sched.run()
            for th in ths:
                th.join(timeout=5)
    finally:
        for mod, name, val in reversed(patched):
            setattr(mod, name, val)
    return {"id": tid, "nthreads": nthreads, "k": k, "ev": sched.events, "calls": calls,
            "frames": [list(f) for f in frames], "connfail": 1 if connfail_first else 0,
            # executions the implementation-shaped model describes: the TCP client with a working connect and the real lock
            "refine": 1 if (client_name == "tcp" and not connfail_first and not broken_lock and not broadcaster and not badreq) else 0}


def pickers(nthreads, rng, tier):
    """systematic pre-emption placements + random schedules"""
    out = []
    # run thread a for j yields, then always prefer the others
    for a in range(1, nthreads + 1):
        for j in range(0, 40 if tier == "quick" else 120):
            def p(runnable, step, a=a, j=j):
                if step <= j and a in runnable:
                    return a
                others = [t for t in runnable if t != a]
                return others[0] if others else runnable[0]
            out.append(p)
    n = 150 if tier == "quick" else 3000
    for s in range(n):
        r = random.Random(rng.random())
        out.append(lambda runnable, step, r=r: r.choice(runnable))
    # round robin with stride
    for stride in (1, 2, 3, 5):
        out.append(lambda runnable, step, stride=stride: runnable[(step // stride) % len(runnable)])
    return out


def tlc_orders(nt, k):
    """every order in which the threads can win the lock (behaviours of ThreadsGen)"""
    from vcommon import run_tlc, tlc_ok, parse_printed
    cfg = open(os.path.join(SPEC, "ThreadsGen.cfg")).read().replace("NT = 3", "NT = %d" % nt).replace("K = 2", "K = %d" % k)
    res = run_tlc("ThreadsGen", None, workers=4, timeout=600, cfg_text=cfg)
    if not tlc_ok(res):
        raise MachineryError("ThreadsGen failed:\n" + "\n".join(res["out"].splitlines()[-20:]))
    return parse_printed(res["out"], "ORDER"), res


def order_picker(order, sched_ref, disturb):
    """run the threads so that they win the lock in the given order; with `disturb` every third decision goes to
    another runnable thread first (it runs until it blocks on the lock or reaches its next yield point)"""
    state = {"i": 0}

    def p(runnable, step):
        done = sum(1 for e in sched_ref["s"].events if e["op"] == "done")
        i = min(done, len(order) - 1)
        target = order[i]
        if disturb and step % 3 == 0:
            others = [t for t in runnable if t != target]
            if others:
                return others[step % len(others)]
        return target if target in runnable else runnable[0]
    p._sched_ref = sched_ref
    return p


def run(prop, tier):
    rng = random.Random(seed() * 7 + 15)
    rep = Report(prop, tier, "model_checking")
    base = open(os.path.join(SPEC, "ThreadsMC.cfg")).read()
    for nt, k in ((2, 2), (3, 2)) + (((4, 3),) if tier != "quick" else ()):
        res = model_check("ThreadsMC", None, workers=8, cfg_text=base.replace("NT = 3", "NT = %d" % nt).replace("K = 2", "K = %d" % k))
        rep.add_mc(res, "ThreadsMC NT=%d K=%d" % (nt, k))
    for d in ("NoLock", "LockOnlyAroundSend"):
        bad, _ = model_check_expect_violation("ThreadsMC", None, workers=8, cfg_text=base.replace("TDev = {}", 'TDev = {"%s"}' % d))
        if not bad:
            raise MachineryError("ThreadsMC with deviation %s satisfies every property: vacuous" % d)
    # the implementation-shaped model: connect check/open under the lock, dropped transmissions and failing transports with a retry
    ibase = open(os.path.join(SPEC, "ThreadsImplMC.cfg")).read()
    for nt, k in ((3, 2),) + (((4, 2),) if tier != "quick" else ()):
        res = model_check("ThreadsImplMC", None, workers=8, cfg_text=ibase.replace("NT = 3", "NT = %d" % nt).replace("K = 2", "K = %d" % k))
        rep.add_mc(res, "ThreadsImplMC NT=%d K=%d" % (nt, k))
    idevs = ["ConnectOutsideLock", "LockReleasedDuringBackoff", "LockWaitTimesOut", "CloseRecreatesLock"]
    for d in idevs:
        bad, _ = model_check_expect_violation("ThreadsImplMC", None, workers=8, cfg_text=ibase.replace("TDev = {}", 'TDev = {"%s"}' % d))
        if not bad:
            raise MachineryError("ThreadsImplMC with deviation %s satisfies every property: vacuous" % d)
    rep.notes["model_deviations_rejected_by_tlc"] = ["NoLock", "LockOnlyAroundSend"] + idevs
    traces = []
    k = 0
    shapes = [(2, 2), (3, 2)] if tier == "quick" else [(2, 2), (2, 3), (3, 2), (4, 3)]
    for nt, kk in shapes:
        for j, p in enumerate(pickers(nt, rng, tier)):
            traces.append(run_schedule("t%d" % k, nt, kk, p, rng, units_differ=(j % 2 == 1)))   # callers address the same / different units
            k += 1
    # faulty transports: a dropped first transmission (retry after a back-off sleep with the lock held), a failed first connect
    for nt, kk in ([(3, 2)] if tier == "quick" else [(2, 2), (3, 2), (4, 2)]):
        ps = pickers(nt, rng, "quick")
        for j, p in enumerate(ps[::3] if tier == "quick" else ps):
            traces.append(run_schedule("d%d" % k, nt, kk, p, rng, units_differ=(j % 2 == 1), drop_first_of=1 + j % nt))
            k += 1
            if j % 2 == 0:
                traces.append(run_schedule("c%d" % k, nt, kk, p, rng, connfail_first=True))
                k += 1
    # slow peers: every reply inside the time-out but late, so that the last caller queues for several transaction times
    for nt, kk in ([(3, 2), (4, 1)] if tier == "quick" else [(3, 2), (4, 1), (4, 3)]):
        ps = pickers(nt, rng, "quick")
        for j, p in enumerate(ps[::6] if tier == "quick" else ps):
            traces.append(run_schedule("w%d" % k, nt, kk, p, rng, units_differ=(j % 2 == 1), slow=True))
            k += 1
    # one of the callers broadcasts (writes to unit 0 with broadcast_enable): no reply is read, the line is still taken in turn
    for nt, kk in ([(3, 2)] if tier == "quick" else [(2, 2), (3, 2), (4, 2)]):
        ps = pickers(nt, rng, "quick")
        for j, p in enumerate(ps[::4] if tier == "quick" else ps):
            traces.append(run_schedule("q%d" % k, nt, kk, p, rng, units_differ=(j % 2 == 1), broadcaster=1 + j % nt))
            k += 1
    # one caller's first request cannot be encoded: its call raises, the others' transactions go on
    for nt, kk in ([(3, 2)] if tier == "quick" else [(2, 2), (3, 2), (4, 2)]):
        ps = pickers(nt, rng, "quick")
        for j, p in enumerate(ps[::5] if tier == "quick" else ps):
            traces.append(run_schedule("e%d" % k, nt, kk, p, rng, units_differ=(j % 2 == 1), badreq=1 + j % nt))
            k += 1
    # the same on a serial RTU client (its send path waits on the client state and the silent interval: more yield points)
    for nt, kk in ([(2, 2), (3, 2)] if tier == "quick" else [(2, 2), (3, 2), (4, 2)]):
        ps = pickers(nt, rng, "quick")
        for j, p in enumerate(ps[::4] if tier == "quick" else ps):
            traces.append(run_schedule("s%d" % k, nt, kk, p, rng, client_name="serial-rtu", units_differ=(j % 2 == 1)))
            k += 1
    # and on the UDP client (datagram socket: recvfrom with a socket time-out instead of select)
    for nt, kk in ([(3, 2)] if tier == "quick" else [(2, 2), (3, 2), (4, 2)]):
        ps = pickers(nt, rng, "quick")
        for j, p in enumerate(ps[::5] if tier == "quick" else ps):
            traces.append(run_schedule("u%d" % k, nt, kk, p, rng, client_name="udp", units_differ=(j % 2 == 1)))
            k += 1
    # TLC-generated behaviours: every lock-acquisition order of the model, replayed with and without disturbance
    nord = 0
    for nt, kk in ([(3, 2)] if tier == "quick" else [(2, 2), (3, 2), (2, 3)]):
        orders, gres = tlc_orders(nt, kk)
        rep.add_mc(gres, "ThreadsGen NT=%d K=%d (behaviour export)" % (nt, kk))
        for j, od in enumerate(orders):
            for disturb in (False, True):
                ref = {"s": None}
                t = run_schedule("o%d" % k, nt, kk, order_picker(od, ref, disturb), rng, units_differ=(j % 2 == 1))
                t["order"] = od
                traces.append(t)
                k += 1
                nord += 1
    rep.notes["tlc_generated_orders_replayed"] = nord
    verdicts, st = validate_traces("ThreadsTrace", "ThreadsTrace.cfg", traces)
    rep.add_tv(st, len(traces), sum(len(t["ev"]) for t in traces))
    # refinement: is each recorded execution (lock / connect / send / unlock / done events) a behaviour of ThreadsImpl?
    rtr = [{"id": t["id"], "nthreads": t["nthreads"], "k": t["k"],
            "ev": [e for e in t["ev"] if e["op"] in ("lock", "unlock", "connect", "send", "done")]} for t in traces if t.get("refine")]
    rverd, rst = validate_traces("ThreadsImplTrace", "ThreadsImplTrace.cfg", rtr)
    rep.add_tv(rst, len(rtr), sum(len(t["ev"]) for t in rtr))
    rep.notes["refinement_traces"] = {"validated_against_ThreadsImpl": len(rtr), "accepted": sum(1 for v in rverd.values() if v["status"] == "OK")}
    # An execution the model does not allow is not by itself a violation of C15 (a correct client may be structured differently:
    # one lock region per call, a separate connect lock, ...).  It is a reason to look harder: the schedules are multiplied, and
    # only an execution in which the statement itself fails (clauses of ThreadsTrace) is reported.
    okr = next((x for x in rtr if rverd[x["id"]]["status"] == "OK" and any(e["op"] == "lock" for e in x["ev"])), None)
    if okr is not None:
        # the refinement check has teeth: the same execution with its first lock acquisition removed is not a behaviour of the model
        bad = dict(okr, id="st_nolock", ev=[e for j, e in enumerate(okr["ev"]) if j != next(n for n, x in enumerate(okr["ev"]) if x["op"] == "lock")])
        bvd, _ = validate_traces("ThreadsImplTrace", "ThreadsImplTrace.cfg", [bad], shards=1)
        if bvd["st_nolock"]["status"] != "FAIL":
            raise MachineryError("refinement self-test: an execution without its lock acquisition was accepted")
        rep.notes["refinement_traces"]["self_test"] = bvd["st_nolock"]["clauses"]
    outside = [tid_ for tid_, v in rverd.items() if v["status"] != "OK"]
    rep.notes["refinement_traces"]["outside_the_model"] = len(outside)
    extra = []
    if outside and not any(v["status"] != "OK" for v in verdicts.values()):
        ex0 = next(x for x in rtr if x["id"] == outside[0])
        print("MODEL-DIVERGENCE C15: %d of %d recorded executions are not behaviours of spec/ThreadsImpl.tla (first: %s at event %d: %s); "
              "searching more schedules for an execution in which C15 itself fails"
              % (len(outside), len(rtr), outside[0], rverd[outside[0]]["step"], ex0["ev"][rverd[outside[0]]["step"] - 1]))
        for nt, kk in [(3, 2), (4, 2), (3, 3)]:
            for j, p in enumerate(pickers(nt, rng, "thorough")[::2]):
                extra.append(run_schedule("x%d" % k, nt, kk, p, rng, units_differ=(j % 2 == 1), slow=(j % 5 == 4),
                                          drop_first_of=(1 + j % nt) if j % 3 == 2 else 0))
                k += 1
        xverd, xst = validate_traces("ThreadsTrace", "ThreadsTrace.cfg", extra)
        rep.add_tv(xst, len(extra), sum(len(t["ev"]) for t in extra))
        rep.notes["refinement_traces"]["extra_schedules_searched"] = len(extra)
        traces += extra
        verdicts.update(xverd)
    for t in traces:
        v = verdicts[t["id"]]
        if v["status"] == "OK":
            rep.distinct((t["nthreads"], t["k"], tuple((e["th"], e["op"]) for e in t["ev"] if e["op"] != "recv")))
        else:
            rep.violation("-".join(sorted(v["clauses"])), {"property": prop, "engine": "ThreadsTrace", "trace": t, "verdict": v})
    # the binding has teeth: with the lock replaced by a no-op the same schedules must be rejected
    broken = [run_schedule("b%d" % j, 3, 2, p, rng, broken_lock=True) for j, p in enumerate(pickers(3, rng, "quick")[-40:])]
    bv, _ = validate_traces("ThreadsTrace", "ThreadsTrace.cfg", broken, shards=1)
    nbad = sum(1 for v in bv.values() if v["status"] == "FAIL")
    if nbad < len(broken) // 2:
        raise MachineryError("self-test: only %d of %d schedules with a no-op lock were rejected" % (nbad, len(broken)))
    rep.notes["self_test_noop_lock_rejected"] = "%d of %d" % (nbad, len(broken))
    t = traces[0]
    rep.sample({"id": t["id"], "threads": t["nthreads"], "k": t["k"], "events": t["ev"][:14], "calls": t["calls"]})
    rep.cov["rule"] = ("cases = schedules of 2-4 real threads x 2-3 transactions on one ModbusTcpClient (and on one serial RTU client) under a deterministic scheduler "
                       "(pre-emption possible at connect / send / select / recv / virtual sleep / every lock operation; replies of different "
                       "lengths and latencies): every placement of one pre-emption of each thread plus seeded random and strided schedules; "
                       "distinct_nontrivial counts distinct orders of send/done events among accepted traces.")
    rep.assumptions += ["TLC 1.8.0 and CommunityModules are correct",
                        "pre-emption inside a transport call or between two bytecodes without a yield point is not explored",
                        "locks created while the client is constructed are replaced by a scheduler-aware re-entrant lock"]
    return rep.finish()
