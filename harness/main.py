"""Entry point: bin/check <Cxx> [--tier quick|thorough] [--replay file]"""
import argparse
import os
import sys
import traceback


def main():
    ap = argparse.ArgumentParser()
    ap.add_argument("prop")
    ap.add_argument("--tier", default=os.environ.get("VERIF_TIER", "quick"), choices=["quick", "thorough"])
    ap.add_argument("--replay", default=None)
    a = ap.parse_args()
    os.chdir(os.path.dirname(os.path.dirname(os.path.abspath(__file__))))
    from vcommon import MachineryError
    # last resort: code under test that loops for ever inside a call the drivers do not supervise must not leave the check hanging
    import faulthandler
    import threading
    limit = int(os.environ.get("VERIF_LIMIT_S", "2700" if a.tier == "quick" else "28800"))

    def give_up():
        sys.stdout.flush()
        print("MACHINERY-ERROR %s: the check did not finish within %d s; stack of every thread follows" % (a.prop, limit), flush=True)
        faulthandler.dump_traceback(file=sys.stderr, all_threads=True)
        os._exit(2)
    timer = threading.Timer(limit, give_up)
    timer.daemon = True
    timer.start()
    try:
        if a.replay:
            import replay
            return replay.run(a.prop, a.replay)
        if a.prop in ("C04", "C05"):
            import dmcheck
            return dmcheck.run(a.prop, a.tier)
        if a.prop == "C19":
            import payloadcheck
            return payloadcheck.run(a.prop, a.tier)
        if a.prop == "C18":
            import blockscheck
            return blockscheck.run(a.prop, a.tier)
        if a.prop in ("C01", "C02"):
            import pducheck
            return pducheck.run(a.prop, a.tier)
        if a.prop in ("C03", "C06", "C07", "C11"):
            import framingcheck
            return framingcheck.run(a.prop, a.tier)
        if a.prop == "C20":
            import meicheck
            return meicheck.run(a.prop, a.tier)
        if a.prop in ("C09", "C10", "C12", "C17"):
            import servercheck
            return servercheck.run(a.prop, a.tier)
        if a.prop in ("C08", "C13"):
            import clientcheck
            return clientcheck.run(a.prop, a.tier)
        if a.prop == "C14":
            import predictcheck
            return predictcheck.run(a.prop, a.tier)
        if a.prop == "C15":
            import threadscheck
            return threadscheck.run(a.prop, a.tier)
        if a.prop == "C16":
            import asynccheck
            return asynccheck.run(a.prop, a.tier)
        print("unknown property %s" % a.prop)
        return 2
    except MachineryError as e:
        print("MACHINERY-ERROR %s: %s" % (a.prop, e))
        return 2
    except Exception:
        traceback.print_exc()
        print("MACHINERY-ERROR %s: unexpected exception in the harness" % a.prop)
        return 2


if __name__ == "__main__":
    sys.exit(main())
