"""Shared machinery: TLC runner, batch trace validation, verdict bookkeeping, evidence files.

Nothing in here decides a property: verdicts come from TLC evaluating the TLA+ formulas in
/verif/spec on traces recorded from the code in /repo (see DESIGN.md section 2).
"""
import json
import os
import re
import shutil
import subprocess
import sys
import tempfile
import time
import hashlib
from concurrent.futures import ThreadPoolExecutor

VERIF = os.path.dirname(os.path.dirname(os.path.abspath(__file__)))
SPEC = os.path.join(VERIF, "spec")
REPO = os.environ.get("VERIF_REPO", "/repo")
EVIDENCE = os.path.join(VERIF, "evidence")
REPLAYS = os.path.join(EVIDENCE, "replays")
KNOWN_FILE = os.path.join(VERIF, "known_findings.json")
NCPU = int(os.environ.get("VERIF_JOBS", "16"))
TLA_JAR = "/opt/veriftools/tla/tla2tools.jar"


def seed():
    try:
        return int(os.environ.get("VERIF_SEED", "20260925"))
    except ValueError:
        return 20260925


class MachineryError(Exception):
    """The checking machinery itself failed (exit 2); never a property verdict."""


def scratch_dir(tag):
    base = os.environ.get("TMPDIR", "/tmp")
    return tempfile.mkdtemp(prefix="verif_%s_" % tag, dir=base)


def _copy_specs(dst):
    for fn in os.listdir(SPEC):
        if fn.endswith((".tla", ".cfg")):
            try:
                shutil.copy(os.path.join(SPEC, fn), os.path.join(dst, fn))
            except FileNotFoundError:      # a scratch file of a concurrent run vanished: not ours
                pass


_STATS = re.compile(r"(\d+) states generated, (\d+) distinct states found")
_DEPTH = re.compile(r"depth of the complete state graph search is (\d+)")


def run_tlc(module, cfg, workdir=None, workers=1, timeout=900, env=None, extra=(), cfg_text=None,
            keep=False):
    """Run TLC on spec/<module>.tla with spec/<cfg> (or cfg_text). Returns dict(out, rc, states, distinct, depth)."""
    own = workdir is None
    if own:
        workdir = scratch_dir("tlc")
    try:
        _copy_specs(workdir)
        if cfg_text is not None:
            cfg = "_gen_%s.cfg" % module
            with open(os.path.join(workdir, cfg), "w") as f:
                f.write(cfg_text)
        e = dict(os.environ)
        e["JAVA_TOOL_OPTIONS"] = "-Xss256m -Xmx3g"
        if env:
            e.update(env)
        # TLC unpacks its standard modules into a fresh directory under java.io.tmpdir on every start and never removes it: keep it
        # inside the scratch directory of this run, which is removed afterwards
        jt = os.path.join(workdir, "jtmp")
        os.makedirs(jt, exist_ok=True)
        e["JAVA_TOOL_OPTIONS"] = e["JAVA_TOOL_OPTIONS"] + " -Djava.io.tmpdir=" + jt
        cmd = ["timeout", str(timeout), "java", "-XX:+UseParallelGC", "-cp", TLA_JAR + ":/opt/veriftools/tla/*",
               "tlc2.TLC", "-workers", str(workers), "-metadir", os.path.join(workdir, "meta"),
               "-noGenerateSpecTE", "-config", cfg] + list(extra) + [module + ".tla"]
        if shutil.which("tlc"):
            cmd = ["timeout", str(timeout), "tlc", "-workers", str(workers), "-metadir",
                   os.path.join(workdir, "meta"), "-noGenerateSpecTE", "-config", cfg] + list(extra) + [module + ".tla"]
        p = subprocess.run(cmd, cwd=workdir, env=e, stdout=subprocess.PIPE, stderr=subprocess.STDOUT, text=True)
        out = p.stdout
        res = {"out": out, "rc": p.returncode, "states": 0, "distinct": 0, "depth": 0}
        m = None
        for m in _STATS.finditer(out):
            pass
        if m:
            res["states"], res["distinct"] = int(m.group(1)), int(m.group(2))
        m = _DEPTH.search(out)
        if m:
            res["depth"] = int(m.group(1))
        return res
    finally:
        if own and not keep:
            shutil.rmtree(workdir, ignore_errors=True)


def tlc_ok(res):
    return res["rc"] == 0 and "Model checking completed. No error has been found." in res["out"]


def model_check(module, cfg, workers=NCPU, timeout=1200, coverage=False, cfg_text=None, extra=()):
    """Exhaustive TLC run that must succeed; returns stats (+ per-action coverage when asked)."""
    ex = list(extra)
    if coverage:
        ex += ["-coverage", "1"]
    t0 = time.time()
    res = run_tlc(module, cfg, workers=workers, timeout=timeout, extra=ex, cfg_text=cfg_text)
    res["wall_s"] = round(time.time() - t0, 2)
    if not tlc_ok(res):
        tail = "\n".join(res["out"].splitlines()[-60:])
        raise MachineryError("model checking of %s/%s did not complete cleanly:\n%s" % (module, cfg, tail))
    if coverage:
        res["actions"] = parse_action_coverage(res["out"])
    return res


_COV = re.compile(r"^<(\w+) line (\d+), col \d+ to line \d+, col \d+ of module (\w+)>: (\d+):(\d+)", re.M)


def parse_action_coverage(out):
    acts = {}
    for m in _COV.finditer(out):
        acts["%s.%s" % (m.group(3), m.group(1))] = {"distinct": int(m.group(4)), "taken": int(m.group(5))}
    return acts


def model_check_expect_violation(module, cfg, workers=NCPU, timeout=600, cfg_text=None):
    """A mutated model must be rejected by TLC (guards against vacuous properties)."""
    res = run_tlc(module, cfg, workers=workers, timeout=timeout, cfg_text=cfg_text)
    bad = ("is violated" in res["out"]) or ("Error: Action property" in res["out"]) or \
          ("Invariant" in res["out"] and "violated" in res["out"])
    return bad, res


def parse_printed(out, tag):
    """Lines PrintT("<tag> " \\o ToJson(x)) come out as a quoted TLA+ string; decode them."""
    items = []
    pref = '"' + tag + " "
    for line in out.splitlines():
        if line.startswith(pref):
            try:
                s = json.loads(line)
            except ValueError:
                # TLC escapes like a TLA+ string: \" and \\ only
                s = line[1:-1].replace('\\"', '"').replace("\\\\", "\\")
            items.append(json.loads(s[len(tag) + 1:]))
    return items


def validate_traces(module, cfg, traces, shards=None, timeout=1800, extra_top=None, tag="VERDICT"):
    """Batch trace validation: traces (list of dicts with unique 'id') -> {id: verdict dict}.

    Splits into shards, one TLC (-workers 1) per shard, run in parallel.
    Returns (verdicts, stats) where stats sums TLC states over shards.
    """
    if not traces:
        return {}, {"states": 0, "distinct": 0, "tlc_runs": 0, "wall_s": 0.0}
    if shards is None:
        shards = max(1, min(NCPU, (len(traces) + 199) // 200))
    wd = scratch_dir("tv")
    t0 = time.time()
    try:
        _copy_specs(wd)
        parts = [traces[k::shards] for k in range(shards)]
        files = []
        for k, part in enumerate(parts):
            fn = os.path.join(wd, "trace_%d.json" % k)
            top = {"traces": part}
            if extra_top:
                top.update(extra_top)
            with open(fn, "w") as f:
                json.dump(top, f, separators=(",", ":"))
            files.append(fn)

        def one(k):
            sub = os.path.join(wd, "s%d" % k)
            os.makedirs(sub)
            _copy_specs(sub)
            # (up to 16 of these JVMs run side by side: a smaller heap each keeps a loaded machine out of memory trouble)
            return run_tlc(module, cfg, workdir=sub, workers=1, timeout=timeout,
                           env={"TRACE_FILE": files[k],
                                "JAVA_TOOL_OPTIONS": "-Xss256m " + ("-Xmx3g" if os.path.getsize(files[k]) > 40_000_000 else "-Xmx2g")})

        with ThreadPoolExecutor(max_workers=NCPU) as ex:
            results = list(ex.map(one, range(shards)))
        verdicts = {}
        st = {"states": 0, "distinct": 0, "tlc_runs": shards}
        for k, res in enumerate(results):
            if not tlc_ok(res):
                tail = "\n".join(l[:300] for l in res["out"].splitlines()[-90:])
                raise MachineryError("trace validation %s shard %d failed:\n%s" % (module, k, tail))
            st["states"] += res["states"]
            st["distinct"] += res["distinct"]
            for v in parse_printed(res["out"], tag):
                verdicts[v["id"]] = v
        missing = [t["id"] for t in traces if t["id"] not in verdicts]
        if missing:
            raise MachineryError("trace validation %s: no verdict for %d traces (e.g. %s)" % (module, len(missing), missing[:3]))
        st["wall_s"] = round(time.time() - t0, 2)
        return verdicts, st
    finally:
        shutil.rmtree(wd, ignore_errors=True)


# ---------------------------------------------------------------------------------------------
# known findings, reporting, evidence
# ---------------------------------------------------------------------------------------------

def load_known():
    if not os.path.exists(KNOWN_FILE):
        return []
    with open(KNOWN_FILE) as f:
        return json.load(f).get("findings", [])


def open_findings(prop):
    return [k for k in load_known() if k.get("property") == prop and k.get("status") == "open"]


def write_replay(prop, name, payload):
    os.makedirs(REPLAYS, exist_ok=True)
    h = hashlib.sha1(json.dumps(payload, sort_keys=True, default=str).encode()).hexdigest()[:10]
    fn = os.path.join(REPLAYS, "%s_%s_%s.json" % (prop, name, h))
    with open(fn, "w") as f:
        json.dump(payload, f, indent=1, default=str)
    return fn


class Report:
    """Collects what a check did; writes evidence; prints VIOLATION / KNOWN-FINDING lines; gives the exit code."""

    def __init__(self, prop, tier, level):
        self.prop, self.tier, self.level = prop, tier, level
        self.t0 = time.time()
        self.cov = {"evaluations": 0, "distinct_nontrivial": 0, "rule": "", "samples": [],
                    "states": 0, "transitions": 0, "traces_validated_against_impl": 0}
        self.assumptions = []
        self.violations = []      # (name, replay payload)
        self.known_hits = {}      # finding id -> count
        self.notes = {}
        self._distinct = set()

    def add_mc(self, res, name):
        self.cov["states"] += res["distinct"]
        self.cov["transitions"] += res["states"]
        self.notes.setdefault("tlc_model_checking", []).append(
            {"config": name, "distinct_states": res["distinct"], "transitions": res["states"],
             "depth": res["depth"], "wall_s": res.get("wall_s"), "actions": res.get("actions")})

    def add_tv(self, st, ntraces, nevents):
        self.cov["traces_validated_against_impl"] += ntraces
        self.cov["evaluations"] += nevents
        self.notes.setdefault("tlc_trace_validation", []).append(dict(st, traces=ntraces, events=nevents))

    def distinct(self, key):
        self._distinct.add(key)

    def sample(self, s, limit=6):
        if len(self.cov["samples"]) < limit:
            self.cov["samples"].append(s)

    def violation(self, name, payload):
        self.violations.append((name, payload))

    def known(self, fid, n=1):
        self.known_hits[fid] = self.known_hits.get(fid, 0) + n

    def finish(self):
        os.makedirs(EVIDENCE, exist_ok=True)
        self.cov["distinct_nontrivial"] = len(self._distinct)
        rc = 0
        lines = []
        for f in open_findings(self.prop):
            n = self.known_hits.get(f["id"], 0)
            lines.append("KNOWN-FINDING: property=%s %s [%s; reproduced in this run: %d]" % (self.prop, f["what"], f["id"], n))
        seen = set()
        for name, payload in self.violations:
            fn = write_replay(self.prop, name, payload)
            if fn in seen:
                continue
            seen.add(fn)
            if len(seen) <= 10:
                lines.append("VIOLATION property=%s replay=%s" % (self.prop, fn))
            rc = 1
        ev = {"property_id": self.prop, "tier": self.tier, "seed": seed(), "level": self.level,
              "coverage": dict(self.cov, notes=self.notes, known_findings_reproduced=self.known_hits),
              "assumptions": self.assumptions, "wall_s": round(time.time() - self.t0, 2),
              "violations": len(seen)}
        with open(os.path.join(EVIDENCE, "%s.json" % self.prop), "w") as f:
            json.dump(ev, f, indent=1, default=str)
        for l in lines:
            print(l)
        print("%s %s: %d traces validated by TLC, %d evaluations, %d distinct non-trivial, %d MC states, %d violations, %.1fs"
              % (self.prop, self.tier, self.cov["traces_validated_against_impl"], self.cov["evaluations"],
                 self.cov["distinct_nontrivial"], self.cov["states"], len(seen), time.time() - self.t0))
        return rc


def import_repo():
    """Make /repo's working tree importable (always the current tree, never an installed copy)."""
    if REPO not in sys.path:
        sys.path.insert(0, REPO)
    import pymodbus  # noqa
    p = os.path.dirname(os.path.abspath(pymodbus.__file__))
    if not p.startswith(os.path.abspath(REPO)):
        raise MachineryError("pymodbus imported from %s, not from %s" % (p, REPO))
    import logging
    logging.disable(logging.CRITICAL)
