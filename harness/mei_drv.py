"""Driver for the device-identification engine (C20): installs an identity in the process-wide
ModbusControlBlock().Identity, runs the chain of Read Device Identification requests a client
performs while more-follows is set through the real code

    ServerDecoder().decode(request PDU) -> request.execute(context) -> function code + response.encode()
    -> ClientDecoder().decode(response PDU)

and records every page (request bytes, response bytes, what the client decoder made of them).
Nothing is judged here: the recorded chains go to spec/MeiTrace.tla.
"""
import random

from vcommon import import_repo

import_repo()
from pymodbus.device import ModbusControlBlock  # noqa: E402
from pymodbus.factory import ServerDecoder, ClientDecoder  # noqa: E402
from pymodbus.mei_message import ReadDeviceInformationRequest  # noqa: E402

PAGE_CAP = 300          # an endless chain is cut here and recorded with cut = 1
CAP_SLACK = 12          # ... or already this many pages beyond one page per object (the bound of C20 is objects + 1)
MAX_TRANSPORTABLE = 244

_SD = ServerDecoder()
_CD = ClientDecoder()


def _identity():
    return ModbusControlBlock().Identity


def reset_identity():
    """The identity is a process-wide singleton whose storage is shared by every instance: blank every key it holds."""
    ident = _identity()
    ident.update({k: '' for k, _ in list(ident)})


def install(pairs, as_str=False, via="update"):
    """pairs = [[object id, [byte, ...]], ...] -> installed through the public API: update() with a dictionary, or item assignment
    (identity[object id] = value).  Whether the identity then holds what was configured is not checked here: the chains are judged
    against the configured identity, so an object the library failed to store shows up as a missing object."""
    reset_identity()
    ident = _identity()
    new = {}
    for oid, val in pairs:
        b = bytes(val)
        new[int(oid)] = b.decode('ascii') if as_str else b
    if via == "setitem":
        for k, v in new.items():
            ident[k] = v
    else:
        ident.update(new)
    return {k: v for k, v in list(ident) if v}


def _cli_record(c):
    rec = {"kind": "none", "code": 0, "conf": 0, "more": 0, "next": 0, "n": 0, "fc": 0, "exc": 0, "objs": []}
    if c is None:
        return rec
    if c.function_code > 0x80 or c.__class__.__name__ == "ExceptionResponse":
        rec.update(kind="exc", fc=int(c.function_code) & 0x7F, exc=int(c.exception_code))
        return rec
    if not hasattr(c, "information"):
        rec["kind"] = "other"
        return rec
    objs = []
    for oid, val in c.information.items():
        for item in (val if isinstance(val, list) else [val]):
            objs.append([int(oid), list(item if isinstance(item, bytes) else item.encode())])
    rec.update(kind="rsp", code=int(c.read_code), conf=int(c.conformity), more=int(c.more_follows),
               next=int(c.next_object_id), n=int(c.number_of_objects), objs=objs)
    return rec


def judged_complete(pairs, code, start):
    """Mirror of Mei!Judged, recorded only so that TLC can cross-check the harness (clause JudgedFlag)."""
    pop = {o: v for o, v in pairs if len(v) > 0 and (0 <= o <= 6 or 0x80 <= o <= 0xFF)}
    if any(len(v) > MAX_TRANSPORTABLE for v in pop.values()):
        return 0
    cat = {1: range(0, 3), 2: range(0, 7)}.get(code, list(range(0, 7)) + list(range(0x80, 0x100)))
    incat = start in pop and start in cat
    if code == 4:
        return 1 if incat else 0
    return 1 if (start == 0 or incat) else 0


def run_chain(tid, pairs, code, start, as_str=False, cap=None, context=None):
    """One client chain on a freshly installed identity."""
    install(pairs, as_str=as_str, via="setitem" if (len(tid) + code + start) % 2 else "update")
    if cap is None:
        cap = min(PAGE_CAP, len([1 for _, v in pairs if len(v)]) + CAP_SLACK)
    pages, oid, cut = [], start, 0
    while True:
        if len(pages) >= cap:
            cut = 1
            break
        rq = ReadDeviceInformationRequest(code, oid)
        req = bytes([rq.function_code]) + rq.encode()
        page = {"req": list(req), "rsp": [], "raised": "", "cli": _cli_record(None)}
        pages.append(page)
        try:
            request = _SD.decode(req)
            if request is None:
                raise ValueError("server decoder returned None")
            rsp = request.execute(context)
            pdu = bytes([rsp.function_code]) + rsp.encode()
        except Exception as ex:  # an observation, judged by the spec (clause NoRaise)
            page["raised"] = type(ex).__name__
            break
        page["rsp"] = list(pdu)
        c = _CD.decode(pdu)
        page["cli"] = _cli_record(c)
        if c is None or getattr(c, "more_follows", 0) != 0xFF:
            break
        oid = c.next_object_id
    reset_identity()
    return {"id": tid, "identity": [[int(o), list(v)] for o, v in pairs], "code": code, "start": start,
            "as_str": 1 if as_str else 0, "judged_complete": judged_complete(pairs, code, start),
            "cut": cut, "pages": pages}


# ---- identities ---------------------------------------------------------------------------------

MC_IDS = [0, 1, 2, 3, 6, 128, 129, 255]
LENS = [0, 1, 100, 121, 122, 123, 200, 243, 244]
OVER = [0, 1, 244, 245]
BIASED = [0, 1, 100, 121, 122, 123, 200, 243, 244, 245]
VALID_IDS = list(range(0, 7)) + list(range(0x80, 0x100))


def mc_value(oid, n):
    """MeiMC!MkVal: the value the model gives object `oid` at length n."""
    return [(7 * oid + k) % 256 for k in range(1, n + 1)]


def mc_identity(lens):
    """lens = {object id: length} -> pairs (MeiMC!MkIdn restricted to the set objects)"""
    return [[o, mc_value(o, n)] for o, n in sorted(lens.items()) if n > 0]


def _combos(ids, lens):
    out = [{}]
    for o in ids:
        out = [dict(list(d.items()) + [(o, n)]) for d in out for n in lens]
    return out


def _pairs(base, lens):
    out = []
    for a in MC_IDS:
        for b in MC_IDS:
            if a < b:
                for la in lens:
                    for lb in lens:
                        d = {o: base for o in MC_IDS}
                        d[a], d[b] = la, lb
                        out.append(d)
    return out


def mc_family(name):
    """The identity family `name` of spec/MeiMC.tla (Fam), as a list of length maps."""
    uni = lambda ls: [{o: n for o in MC_IDS} for n in ls]
    lq = [x for x in LENS if x != 123]
    if name.startswith(("q_", "c_", "o_")):
        ids = [int(x) for x in name.split("_")[1:]]
        return _combos(ids, {"q": lq, "c": LENS, "o": OVER}[name[0]])
    return {"p_1": lambda: _pairs(1, [121, 122, 244]), "p_100": lambda: _pairs(100, [1, 121, 122, 123, 243, 244, 245]),
            "u": lambda: uni([1, 100, 121, 122, 244, 245]),
            "d_0_1_128": lambda: _combos([0, 1, 128], [0, 1, 121, 122, 244, 245]), "d_u": lambda: uni([100, 121])}[name]()


def rand_len(rng):
    r = rng.random()
    if r < 0.55:
        return rng.choice(BIASED)
    if r < 0.70:
        return rng.choice([119, 120, 121, 122, 123, 124, 240, 241, 242, 243, 244])
    return rng.randint(0, 245)


def rand_value(rng, n, ascii_only):
    if ascii_only:
        return [rng.randint(0x20, 0x7E) for _ in range(n)]
    mode = rng.random()
    if mode < 0.2:
        return [rng.choice([0x00, 0xFF, 0x2B, 0x0E])] * n        # bytes that look like header fields
    return [rng.randint(0, 255) for _ in range(n)]


def rand_identity(rng, oversize_ok=True, ascii_only=False):
    shape = rng.random()
    if shape < 0.15:        # many small objects: pages with dozens of objects, long chains
        ids = rng.sample(VALID_IDS, rng.randint(20, 120))
        lens = {o: rng.choice([1, 2, 3, 5, 8, 13, 30, rng.randint(1, 40)]) for o in ids}
    elif shape < 0.30:      # the standard objects plus a few private ones
        ids = [o for o in range(7) if rng.random() < 0.8] + rng.sample(range(0x80, 0x100), rng.randint(0, 4))
        lens = {o: rand_len(rng) for o in ids}
    else:
        ids = rng.sample(VALID_IDS, rng.randint(0, 10))
        if rng.random() < 0.5:
            ids = list(set(ids) | set(rng.sample(range(7), rng.randint(0, 4))))
        lens = {o: rand_len(rng) for o in ids}
    if not oversize_ok:
        lens = {o: min(n, MAX_TRANSPORTABLE) for o, n in lens.items()}
    # a few objects are configured with an EMPTY value (installed as '' / b''): they are not "configured non-empty objects" and must
    # never be returned, neither as objects of length 0 nor as page filler
    empties = {o for o in lens if rng.random() < 0.08}
    return [[o, rand_value(rng, 0 if o in empties else n, ascii_only)] for o, n in sorted(lens.items()) if n > 0]


def starts_for(pairs, rng, extra=(5, 7, 130)):
    """0, every populated id (capped), some unpopulated ones."""
    pop = [o for o, _ in pairs]
    if len(pop) > 6:
        pop = rng.sample(pop, 6)
    unp = [x for x in extra if x not in dict((o, 1) for o, _ in pairs)]
    return sorted(set([0] + pop + unp))
