"""C18: data blocks / slave context / server context addressing. Drives the real datastore classes with
operation sequences (every small block of the MC instance + real-size blocks around every boundary) and
lets TLC validate each step against spec/Blocks.tla (BlocksTrace)."""
import copy
import itertools
import random

import dm
from vcommon import (Report, model_check, model_check_expect_violation, validate_traces, seed, MachineryError,
                     open_findings, import_repo)

import_repo()
from pymodbus.datastore import ModbusServerContext, ModbusSlaveContext, ModbusSequentialDataBlock  # noqa: E402
from pymodbus.exceptions import NoSuchSlaveException  # noqa: E402


def snap(block):
    return {int(a): int(v) for a, v in block}


def bdiff(before, after):
    ext = 1 if before.keys() != after.keys() else 0
    chg = [[a, after[a]] for a in after if a in before and after[a] != before[a]]
    return chg, ext


def block_trace(tid, jb, ops, bits):
    b = dm.build_block(jb, bits)
    ev = []
    before = snap(b)
    for op in ops:
        rec = dict(op, raised="", chg=[], ext=0)
        try:
            if op["op"] == "validate":
                rec["res"] = 1 if b.validate(op["a"], op["n"]) else 0
            elif op["op"] == "get":
                if not b.validate(op["a"], op["n"]):
                    continue
                rec["res"] = [int(v) for v in b.getValues(op["a"], op["n"])]
            elif op["op"] == "set":
                if not b.validate(op["a"], len(op["vals"])):
                    continue
                vals = [bool(v) for v in op["vals"]] if bits else list(op["vals"])
                b.setValues(op["a"], vals)
            elif op["op"] == "reset":
                b.reset()
        except Exception as ex:
            rec["raised"] = type(ex).__name__
        try:
            after = snap(b)
        except Exception as ex:   # the block can no longer be iterated: record as an extent change
            rec["raised"] = rec["raised"] or ("iter:" + type(ex).__name__)
            after = {}
        rec["chg"], rec["ext"] = bdiff(before, after)
        before = after
        ev.append(rec)
        if rec["raised"].startswith("iter:"):
            break
    return {"id": tid, "level": "block", "cfg": jb, "ev": ev}


def ctx_trace(tid, cfg, ops):
    ctx, blocks = dm.build_context(cfg)
    ev = []
    before = dm.dump(blocks)
    for op in ops:
        rec = dict(op, raised="", chg=[], ext=0)
        bits = op.get("fc") in (1, 2, 5, 15)
        try:
            if op["op"] == "creset":
                ctx.reset()
            elif op["op"] == "cvalidate":
                rec["res"] = 1 if ctx.validate(op["fc"], op["a"], op["n"]) else 0
            elif op["op"] == "cget":
                if not ctx.validate(op["fc"], op["a"], op["n"]):
                    continue
                rec["res"] = [int(v) for v in ctx.getValues(op["fc"], op["a"], op["n"])]
            elif op["op"] == "cset":
                if not ctx.validate(op["fc"], op["a"], len(op["vals"])):
                    continue
                ctx.setValues(op["fc"], op["a"], [bool(v) for v in op["vals"]] if bits else list(op["vals"]))
        except Exception as ex:
            rec["raised"] = type(ex).__name__
        after = dm.dump(blocks)
        rec["chg"], rec["ext"] = dm.diff(before, after)
        before = after
        ev.append(rec)
    return {"id": tid, "level": "ctx", "cfg": cfg, "ev": ev}


def server_trace(tid, single, reg, ops):
    names = {}

    def ctx_named(n):
        if n not in names:
            names[n] = ModbusSlaveContext(di=ModbusSequentialDataBlock(0, [0]), co=ModbusSequentialDataBlock(0, [0]),
                                          hr=ModbusSequentialDataBlock(0, [0]), ir=ModbusSequentialDataBlock(0, [0]))
        return names[n]

    def name_of(c):
        for n, x in names.items():
            if x is c:
                return n
        return "?"
    if single:
        srv = ModbusServerContext(slaves=ctx_named(reg[0][1]), single=True)
        cfg = {"single": 1, "reg": [[0, reg[0][1]]]}
    else:
        srv = ModbusServerContext(slaves={u: ctx_named(n) for u, n in reg}, single=False)
        cfg = {"single": 0, "reg": [[u, n] for u, n in reg]}
    ev = []
    for op in ops:
        rec = dict(op)
        try:
            if op["op"] == "sget":
                rec["res"] = name_of(srv[op["u"]])
            elif op["op"] == "shas":
                rec["res"] = 1 if op["u"] in srv else 0
            elif op["op"] == "sset":
                srv[op["u"]] = ctx_named(op["c"])
                rec["res"] = "ok"
            elif op["op"] == "sdel":
                del srv[op["u"]]
                rec["res"] = "ok"
            elif op["op"] == "slist":
                rec["res"] = sorted(int(u) for u in srv.slaves())
        except NoSuchSlaveException:
            rec["res"] = "NoSuchSlave"
        except Exception as ex:
            rec["res"] = "raised:" + type(ex).__name__
        ev.append(rec)
    return {"id": tid, "level": "server", "cfg": cfg, "ev": ev}


def gen(tier, rng):
    traces = []
    k = 0
    # --- every block of the MC instance, op sequences covering all (a, n) ---
    small = [dm.seq_block(s, n) for s in range(4) for n in range(1, 4)]
    for r in range(1, 6):
        for K in itertools.combinations(range(5), r):
            small.append(dm.sparse_block(K))
    reps = 2 if tier == "quick" else 12
    for jb in small:
        for rep in range(reps):
            bits = (rep % 2 == 0)
            ops = []
            for a in range(-1, 8):
                for n in range(1, 6):
                    ops.append({"op": "validate", "a": a, "n": n})
            rng.shuffle(ops)
            ops = ops[:30]
            for _ in range(25):
                a, n = rng.randint(-1, 7), rng.randint(1, 4)
                c = rng.random()
                if c < 0.4:
                    ops.append({"op": "set", "a": a, "vals": [rng.randint(0, 1) if bits else rng.choice([0, 1, 65535, 7]) for _ in range(n)]})
                elif c < 0.8:
                    ops.append({"op": "get", "a": a, "n": n})
                elif c < 0.9:
                    ops.append({"op": "validate", "a": a, "n": n})
                else:
                    ops.append({"op": "reset"})
            jb2 = copy.deepcopy(jb)
            jb2["def"] = rng.choice([0, 1]) if bits else rng.choice([0, 5])
            traces.append(block_trace("b%d" % k, jb2, ops, bits))
            k += 1
    # --- real-size blocks around every boundary ---
    big = [dm.seq_block(0, 65536), dm.seq_block(1, 65535), dm.seq_block(65535, 1), dm.seq_block(65000, 536),
           dm.seq_block(0, 1), dm.seq_block(100, 2000), dm.seq_block(7, 125),
           dm.sparse_block(list(range(0, 50)) + [65535, 65534, 1000, 1002]), dm.sparse_block([0]), dm.sparse_block([65535]),
           dm.sparse_block(range(10, 2100))]
    n_big = 3 if tier == "quick" else 30
    for jb in big:
        lo, hi = dm.cells_of(jb)
        for rep in range(n_big):
            bits = rep % 2 == 0
            ops = []
            for _ in range(40):
                n = rng.choice([1, 2, 3, 8, 125, 2000, hi - lo + 1, hi - lo + 2, 65536])
                a = rng.choice([lo - 1, lo, lo + 1, hi - n, hi - n + 1, hi - n + 2, hi, hi + 1, 0, 65535, 65536, -1, rng.randint(lo, hi)])
                c = rng.random()
                if c < 0.35:
                    ops.append({"op": "validate", "a": a, "n": n})
                elif c < 0.65:
                    ops.append({"op": "get", "a": a, "n": min(n, 300)})
                elif c < 0.95:
                    m = min(n, 200)
                    ops.append({"op": "set", "a": a, "vals": [rng.randint(0, 1) if bits else rng.randint(0, 65535) for _ in range(m)]})
                else:
                    ops.append({"op": "reset"})
            traces.append(block_trace("B%d" % k, jb, ops, bits))
            k += 1
    # --- slave contexts: offset and table selection ---
    layouts = dm.real_layouts(rng)[:10]
    small_l = [dm.layout(z, dm.seq_block(s, 3), dm.seq_block(s + 1, 2, 1), dm.seq_block(s, 3, 9), dm.sparse_block([s, s + 2], 4))
               for z in (0, 1) for s in (0, 1, 2)]
    # (quick: the first six real-size layouts plus the ones that leave tables to the context's own default blocks)
    for cfg in small_l + (layouts if tier != "quick" else layouts[:6] + [l for l in layouts if l.get("omit")][:3]):
        if any(b["kind"] == "seq" and b["size"] > 10000 for b in cfg["blocks"].values()):
            nops = 8
        else:
            nops = 40
        for rep in range(2 if tier == "quick" else 10):
            ops = []
            for _ in range(nops):
                fc = rng.choice([1, 2, 3, 4, 5, 6, 15, 16, 22, 23])
                t = {1: "c", 2: "d", 3: "h", 4: "i", 5: "c", 6: "h", 15: "c", 16: "h", 22: "h", 23: "h"}[fc]
                n = rng.choice([1, 2, 3, 8])
                a = rng.choice(dm.boundary_addrs(cfg, t, rng, n))
                c = rng.random()
                if c < 0.04:
                    ops.append({"op": "creset"})       # the context-level reset: every table back to its defaults, nothing else changes
                elif c < 0.4:
                    ops.append({"op": "cvalidate", "fc": fc, "a": a, "n": n})
                elif c < 0.7:
                    ops.append({"op": "cget", "fc": fc, "a": a, "n": n})
                else:
                    bits = fc in (1, 2, 5, 15)
                    ops.append({"op": "cset", "fc": fc, "a": a, "vals": [rng.randint(0, 1) if bits else rng.randint(0, 65535) for _ in range(n)]})
            if rep == 0 and cfg.get("omit"):
                # directed: tables left to the context's defaults are separate tables - a write to one is not seen through another
                ops = [{"op": "cset", "fc": 15, "a": 5, "vals": [1, 1, 1]}, {"op": "cget", "fc": 2, "a": 5, "n": 3},
                       {"op": "cset", "fc": 16, "a": 7, "vals": [9, 8]}, {"op": "cget", "fc": 4, "a": 7, "n": 2},
                       {"op": "cget", "fc": 1, "a": 5, "n": 3}, {"op": "cget", "fc": 3, "a": 7, "n": 2},
                       {"op": "cget", "fc": 3, "a": 5, "n": 3}, {"op": "cget", "fc": 1, "a": 7, "n": 2}] + ops[:6]
            elif rep == 0:
                # directed: a context-level reset in the middle, then every table probed at both ends of its block with either offset
                ops = ops[:10] + [{"op": "creset"}]
                for fc, t in ((1, "c"), (2, "d"), (3, "h"), (4, "i")):
                    for a in dm.boundary_addrs(cfg, t, rng, 1)[:8]:
                        ops.append({"op": "cvalidate", "fc": fc, "a": a, "n": 1})
                        ops.append({"op": "cget", "fc": fc, "a": a, "n": 1})
            traces.append(ctx_trace("c%d" % k, cfg, ops))
            k += 1
    # --- server contexts ---
    units = [0, 1, 2, 100, 246, 247, 248, 255, 256, -1, 65535]
    regs = [[], [[1, "A"]], [[0, "A"], [1, "B"]], [[247, "A"], [3, "B"]], [[1, "A"], [2, "A"]]]
    for single in (0, 1):
        for reg in regs:
            if single and not reg:
                continue
            for rep in range(3 if tier == "quick" else 25):
                ops = []
                for _ in range(30):
                    u = rng.choice(units)
                    c = rng.random()
                    if c < 0.35:
                        ops.append({"op": "sget", "u": u})
                    elif c < 0.5:
                        ops.append({"op": "shas", "u": u})
                    elif c < 0.75:
                        ops.append({"op": "sset", "u": u, "c": rng.choice(["A", "B", "C"])})
                    elif c < 0.9:
                        ops.append({"op": "sdel", "u": u})
                    else:
                        ops.append({"op": "slist"})
                if rep == 0:
                    # directed: look a unit up, change its registration, look it up again at once (nothing in between) - for every
                    # registered unit and a few others: get/del/get, get/set/get, has/del/has, set/del/get
                    pre = []
                    for u in [x[0] for x in reg] + [5, 247]:
                        pre += [{"op": "sget", "u": u}, {"op": "sdel", "u": u}, {"op": "sget", "u": u}, {"op": "shas", "u": u},
                                {"op": "sset", "u": u, "c": "C"}, {"op": "sget", "u": u}, {"op": "sset", "u": u, "c": "B"},
                                {"op": "sget", "u": u}, {"op": "sdel", "u": u}, {"op": "shas", "u": u}, {"op": "sget", "u": u},
                                {"op": "slist"}]
                    ops = pre + ops
                traces.append(server_trace("s%d" % k, single, reg, ops))
                k += 1
    return traces


def self_test(ok):
    muts = []
    for t in ok:
        if t["level"] == "block" and any(e["op"] == "get" and e.get("res") for e in t["ev"]):
            m = copy.deepcopy(t)
            m["id"] = "st_get"
            e = next(e for e in m["ev"] if e["op"] == "get" and e.get("res"))
            e["res"][0] ^= 1
            muts.append(m)
            break
    for t in ok:
        if t["level"] == "server" and any(e["op"] == "sget" for e in t["ev"]):
            m = copy.deepcopy(t)
            m["id"] = "st_route"
            e = next(e for e in m["ev"] if e["op"] == "sget")
            e["res"] = "Z"
            muts.append(m)
            break
    if len(muts) < 2:
        raise MachineryError("self-test: no suitable accepted traces")
    v, _ = validate_traces("BlocksTrace", "BlocksTrace.cfg", muts, shards=1)
    if any(x["status"] != "FAIL" for x in v.values()):
        raise MachineryError("self-test: corrupted trace accepted: %s" % {k: x["status"] for k, x in v.items()})
    return {k: x["status"] for k, x in v.items()}


def run(prop, tier):
    rng = random.Random(seed() * 7 + 18)
    rep = Report(prop, tier, "model_checking")
    res = model_check("BlocksMC", "BlocksMC.cfg", timeout=600)
    rep.add_mc(res, "BlocksMC.cfg")
    base = open(dm.__file__.replace("harness/dm.py", "spec/BlocksMC.cfg")).read()
    bad, _ = model_check_expect_violation("BlocksMC", None, cfg_text=base.replace("Dev = {}", 'Dev = {"SeqEndInclusive"}'))
    if not bad:
        raise MachineryError("BlocksMC with deviation SeqEndInclusive satisfies every property: vacuous")
    rep.notes["model_deviations_rejected_by_tlc"] = ["SeqEndInclusive"]
    traces = gen(tier, rng)
    import repotests
    rd = repotests.record()         # the repository's own datastore tests, recorded (harness/repotrace_plugin.py)
    traces += rd.get("blocks", [])
    repotests.note(rep, rd, "blocks")
    verdicts, st = validate_traces("BlocksTrace", "BlocksTrace.cfg", traces)
    rep.add_tv(st, len(traces), sum(len(t["ev"]) for t in traces))
    byid = {t["id"]: t for t in traces}
    ok = []
    known = {f["id"]: f for f in open_findings(prop)}
    for tid, v in verdicts.items():
        t = byid[tid]
        upto = v["step"] if v["status"] != "OK" else len(t["ev"])
        for e in t["ev"][:upto]:
            rep.distinct((t["level"], e["op"], e.get("a"), e.get("n"), e.get("u"), str(e.get("res"))[:20]))
        if v["status"] == "OK":
            ok.append(t)
        elif v["status"] == "UNJUDGED":
            rep.notes["unjudged"] = rep.notes.get("unjudged", 0) + 1
        else:
            matched = None
            ev = t["ev"][v["step"] - 1]
            for fid, f in known.items():
                sig = f.get("signature", {})
                if set(v["clauses"]) <= set(sig.get("clauses", [])) and ev["op"] in sig.get("ops", []) and \
                        t["cfg"].get("kind") in sig.get("kinds", [t["cfg"].get("kind")]):
                    matched = fid
            if matched:
                rep.known(matched)
            else:
                rep.violation("-".join(sorted(v["clauses"])), {"property": prop, "engine": "BlocksTrace", "trace": t, "verdict": v})
    rep.notes["self_test"] = self_test(ok)
    for t in ok[:1] + [x for x in ok if x["level"] == "server"][:1]:
        rep.sample({"id": t["id"], "level": t["level"], "cfg": str(t["cfg"])[:200], "events": t["ev"][:5]})
    rep.cov["rule"] = ("cases = recorded datastore operations (validate/get/set/reset on blocks, the same through slave contexts with "
                       "function code and offset, item access on server contexts); every block of the MC instance plus real-size blocks "
                       "around each boundary; distinct_nontrivial counts distinct (level, op, address, count, unit, result) tuples.")
    rep.assumptions += ["TLC 1.8.0 and CommunityModules are correct", "only count >= 1 is judged (validate(..., 0) is free)",
                        "get/set are issued only on ranges the block's own validate accepted (the validate answer itself is judged)"]
    return rep.finish()
