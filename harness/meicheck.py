"""C20 (device identification is returned completely, in pages that fit): model checking of
spec/MeiMC (reference pager against the declarative demand, every named deviation rejected) +
chains recorded from the real server/client code, judged by TLC through spec/MeiTrace.tla."""
import copy
import os
import random
import time
from concurrent.futures import ThreadPoolExecutor

import mei_drv as md
from vcommon import (Report, model_check, run_tlc, validate_traces, seed, MachineryError, open_findings, SPEC, NCPU)

DEVIATIONS = {   # deviation of the reference design -> properties of MeiMC that may be the first to reject it
    "NextIsLastSent": {"MoreFlag", "ExactlyOnce", "DeliversPrefix", "PageBound"},
    "NoSpaceCheck": {"SizeBound"},
    "SpaceOffByOne": {"SizeBound"},
    "SkipsObjectAfterPageBreak": {"Complete", "MoreFlag", "DeliversPrefix"},
    "OversizeStalls": {"PageBound"},
    "IndividualStreams": {"Individual", "DeliversPrefix", "MoreFlag", "Complete"},
}
KNOWN_CLAUSES_SCOPE = {"SizeBound", "ChainTerminates", "WellFormed", "NoRaise", "ClientDecode", "NoException", "EchoCode",
                       "Values", "ExactlyOnce", "Complete", "MoreFlag"}
MACHINERY_CLAUSES = {"ChainFollows", "JudgedFlag"}


def _cfg(name):
    with open(os.path.join(SPEC, name)) as f:
        return f.read()


def _violated(out):
    names = []
    for line in out.splitlines():
        if line.startswith("Error: Invariant ") and line.rstrip().endswith("is violated."):
            names.append(line.split()[2])
        elif line.startswith("Error: Temporal property ") and "violated" in line:
            names.append(line.split()[3])
        elif line.startswith("Error: Temporal properties were violated"):
            names.append("ChainTerminates")
    return names


def model_checking(tier, rep):
    """Dev = {}: no violation (safety on the tier's families, liveness <>done under WF on the small ones);
    every named deviation: TLC must reject it, and OversizeStalls also by the liveness property alone."""
    jobs = []
    safety = "MeiMC_quick.cfg" if tier == "quick" else "MeiMC_base.cfg"
    live = "MeiMC_live.cfg" if tier == "quick" else "MeiMC_livebase.cfg"
    dev_base = _cfg("MeiMC_dev.cfg")
    with ThreadPoolExecutor(max_workers=4) as ex:
        f_safe = ex.submit(model_check, "MeiMC", safety, workers=max(2, NCPU - 6), timeout=1500)
        f_live = ex.submit(model_check, "MeiMC", live, workers=3, timeout=1500)
        for d in DEVIATIONS:
            jobs.append((d, "all", ex.submit(run_tlc, "MeiMC", None, workers=2, timeout=600,
                                             cfg_text=dev_base.replace("Dev = {}", 'Dev = {"%s"}' % d))))
        only_live = "\n".join(l for l in dev_base.splitlines() if not l.startswith("INVARIANT")) + "\n"
        jobs.append(("OversizeStalls", "liveness", ex.submit(run_tlc, "MeiMC", None, workers=2, timeout=600,
                                                             cfg_text=only_live.replace("Dev = {}", 'Dev = {"OversizeStalls"}'))))
        rs, rl = f_safe.result(), f_live.result()
        rep.add_mc(rs, safety)
        rep.add_mc(rl, live + " (with PROPERTY ChainTerminates == <>done under WF_vars(Next))")
        rejected = {}
        for d, mode, fut in jobs:
            res = fut.result()
            names = _violated(res["out"])
            if not names:
                raise MachineryError("model with deviation %s (%s) satisfies every property: the properties are vacuous\n%s"
                                     % (d, mode, "\n".join(res["out"].splitlines()[-15:])))
            if mode == "liveness" and names[0] != "ChainTerminates":
                raise MachineryError("liveness run of %s rejected by %s" % (d, names))
            if mode == "all" and names[0] not in DEVIATIONS[d]:
                raise MachineryError("deviation %s rejected by unexpected property %s" % (d, names))
            rejected["%s/%s" % (d, mode)] = names[0]
    rep.notes["model_deviations_rejected_by_tlc"] = rejected


# ---- chains -----------------------------------------------------------------------------------------

def gen_traces(tier, rng):
    """Generator of recorded chains (the driving is lazy so that run() can validate in batches)."""
    k = [0]

    def chains(pairs, codes=(1, 2, 3, 4), starts=None, as_str=False, tag="r"):
        for code in codes:
            for st in (starts if starts is not None else md.starts_for(pairs, rng)):
                k[0] += 1
                yield md.run_chain("%s%d" % (tag, k[0]), pairs, code, st, as_str=as_str)

    # (1) the model checker's instance, concretised: the small families completely, the big ones sampled
    full = ["d_0_1_128", "d_u", "o_0_2_129", "u"] + ([] if tier == "quick" else ["o_1_6_128_255", "p_1"])
    for name in full:
        for lens in md.mc_family(name):
            yield from chains(md.mc_identity(lens), tag="m")
    sampled = {"quick": [("q_0_2_3_128", 110), ("q_1_6_255", 40), ("p_1", 40)],
               "thorough": [("q_0_2_3_128", 500), ("q_1_6_255", 200), ("c_0_1_2_128", 250), ("c_1_3_6_255", 250),
                            ("c_0_3_128_129", 250), ("c_2_6_129_255", 250), ("c_0_1_2_3", 250),
                            ("c_6_128_129_255", 250), ("p_100", 300)]}[tier]
    for name, n in sampled:
        pool = md.mc_family(name)
        for lens in (pool if len(pool) <= n else rng.sample(pool, n)):
            yield from chains(md.mc_identity(lens), tag="m")
    # (2) random identities over the whole id space 0..6, 0x80..0xFF, lengths biased to the packing boundaries
    nrand = 330 if tier == "quick" else 2400
    for j in range(nrand):
        ascii_only = j % 5 == 0
        pairs = md.rand_identity(rng, oversize_ok=(j % 3 != 0), ascii_only=ascii_only)
        codes = (1, 2, 3, 4) if j % 2 else rng.sample([1, 2, 3, 3, 4], 2)
        yield from chains(pairs, codes=sorted(set(codes)), as_str=ascii_only, tag="r")
    # (3) exact-fit pages: pairs/triples of objects whose encodings sum to 245, 246, 247 bytes
    for total in (245, 246, 247):
        for a in ([1, 60, 121, 122] if tier == "quick" else [1, 2, 60, 100, 120, 121, 122, 200, 240]):
            b = total - 4 - a
            if b >= 1:
                for ids in ((0, 1, 2), (1, 2, 3), (5, 6, 0x80), (0xFE, 0xFF, 0x80)):
                    lens = dict(zip(sorted(ids), (a, b, 7)))
                    yield from chains([[o, md.rand_value(rng, n, False)] for o, n in sorted(lens.items())],
                                      starts=[0, sorted(ids)[0]], tag="x")


def batches(gen, size):
    cur = []
    for t in gen:
        cur.append(t)
        if len(cur) >= size:
            yield cur
            cur = []
    if cur:
        yield cur


def stall_signature_matches(sig, v):
    d = v.get("detail", {})
    return (set(v["clauses"]) == set(sig.get("clauses", [])) and
            d.get("maxlen", 0) >= sig.get("identity_max_value_len_min", 1 << 30) and
            d.get("stall_len", 0) >= sig.get("stall_object_len_min", 1 << 30))


def self_test_base(t):
    return (t["judged_complete"] == 1 and len(t["pages"]) >= 2 and len(t["pages"][0]["rsp"]) < 250 and
            all(p["cli"]["kind"] == "rsp" and p["cli"]["objs"] for p in t["pages"]))


def self_test(ok_traces):
    """The binding must have teeth: a corrupted value byte, a forged next-object id, a dropped page, a forged client
    decode and a padded (oversize) response must each be rejected by TLC."""
    base = next((t for t in ok_traces if self_test_base(t)), None)
    if base is None:
        return None
    muts = []
    a = copy.deepcopy(base); a["id"] = "st_value"; a["pages"][-1]["rsp"][-1] ^= 1; muts.append((a, {"Values", "ClientDecode"}))
    b = copy.deepcopy(base); b["id"] = "st_next"; b["pages"][0]["rsp"][5] = (b["pages"][0]["rsp"][5] + 1) % 256
    muts.append((b, {"MoreFlag", "ChainFollows", "ClientDecode"}))
    c = copy.deepcopy(base); c["id"] = "st_drop"; del c["pages"][0]; muts.append((c, {"ChainFollows", "Complete", "Values"}))
    d = copy.deepcopy(base); d["id"] = "st_client"; d["pages"][0]["cli"]["objs"][0][1] = d["pages"][0]["cli"]["objs"][0][1] + [0]
    muts.append((d, {"ClientDecode"}))
    e = copy.deepcopy(base); e["id"] = "st_size"
    pad = 254 - len(e["pages"][0]["rsp"]) - 2
    e["pages"][0]["rsp"][6] += 1; e["pages"][0]["rsp"] += [0x7F, pad] + [0] * pad
    muts.append((e, {"SizeBound"}))
    f = copy.deepcopy(base); f["id"] = "st_more"; f["pages"][-1]["rsp"][4] = 0xFF; muts.append((f, {"MoreFlag", "ChainFollows"}))
    g = copy.deepcopy(base); g["id"] = "st_cut"; g["cut"] = 1; muts.append((g, {"ChainTerminates"}))
    v, _ = validate_traces("MeiTrace", "MeiTrace.cfg", [m for m, _ in muts], shards=1)
    res = {}
    for m, want in muts:
        got = v[m["id"]]
        res[m["id"]] = "%s %s" % (got["status"], sorted(got["clauses"]))
        if got["status"] != "FAIL" or not (set(got["clauses"]) & want):
            raise MachineryError("self-test: corrupted trace %s not rejected as expected: %s" % (m["id"], res[m["id"]]))
    return res


def run(prop, tier):
    rng = random.Random(seed() * 7 + 20)
    rep = Report(prop, tier, "model_checking")
    t0 = time.time()
    known = {f["id"]: f for f in open_findings(prop)}
    ok_traces = []          # a few accepted multi-page chains (self-test, samples); everything else is dropped per batch
    stats = {"chains": 0, "judged_ok": 0, "unjudged_ok": 0, "fail": 0, "multi_page_ok": 0, "max_pages_ok": 0, "pages_recorded": 0}
    per_name = {}
    tv = {"states": 0, "distinct": 0, "tlc_runs": 0, "wall_s": 0.0, "batches": 0}
    judged_pages = [0]

    def classify(traces, verdicts):
        for t in traces:
            v = verdicts[t["id"]]
            stats["chains"] += 1
            stats["pages_recorded"] += len(t["pages"])
            judged_pages[0] += v["step"]      # a failing chain is judged up to the failing page
            lens = tuple(len(p["rsp"]) for p in t["pages"][:6])
            rep.distinct((t["code"], t["start"] == 0, t["judged_complete"], len(t["pages"]) if not t["cut"] else -1, lens))
            if v["status"] == "OK":
                if len(ok_traces) < 12 and self_test_base(t):
                    ok_traces.append(t)
                stats["judged_ok" if t["judged_complete"] else "unjudged_ok"] += 1
                if len(t["pages"]) > 1:
                    stats["multi_page_ok"] += 1
                stats["max_pages_ok"] = max(stats["max_pages_ok"], len(t["pages"]))
                continue
            if v["status"] != "FAIL":
                raise MachineryError("unexpected verdict status %r" % (v,))
            stats["fail"] += 1
            cl = set(v["clauses"])
            if cl & MACHINERY_CLAUSES:
                raise MachineryError("harness sanity clause failed on %s: %s" % (t["id"], v))
            matched = None
            for fid, f in known.items():
                if stall_signature_matches(f.get("signature", {}), v):
                    matched = fid
            if matched:
                rep.known(matched)
                if "known_example" not in rep.notes:
                    rep.notes["known_example"] = {"finding": matched, "code": t["code"], "start": t["start"],
                                                  "identity_lengths": [[o, len(b)] for o, b in t["identity"]],
                                                  "pages_before_cut": len(t["pages"]), "verdict": v}
                continue
            name = "-".join(sorted(cl))
            per_name[name] = per_name.get(name, 0) + 1
            if per_name[name] > 3:      # one defect fails thousands of chains: three replay files per clause set are enough
                continue
            payload = {"property": prop, "engine": "MeiTrace", "trace": t, "verdict": v}
            if t["cut"]:   # keep the replay file small: an endless chain repeats its last page
                payload["trace"] = dict(t, pages=t["pages"][:v["step"] + 2], pages_recorded=len(t["pages"]))
            rep.violation(name, payload)

    def validate(traces):
        verdicts, st = validate_traces("MeiTrace", "MeiTrace.cfg", traces, shards=NCPU)
        for key in ("states", "distinct", "tlc_runs", "wall_s"):
            tv[key] += st[key]
        tv["batches"] += 1
        return traces, verdicts

    # TLC (model checking, then validation of batch n) runs in subprocesses beside the single-threaded driving of batch n+1
    with ThreadPoolExecutor(max_workers=1) as mcx, ThreadPoolExecutor(max_workers=1) as tvx:
        mc = mcx.submit(model_checking, tier, rep)
        pending = None
        for batch in batches(gen_traces(tier, rng), 25000 if tier == "quick" else 12000):
            if tier == "quick" and not mc.done():
                mc.result()            # quick: do not let the model checker and the validators fight for the cores
            fut = tvx.submit(validate, batch)
            if pending is not None:
                classify(*pending.result())
            pending = fut
        if pending is not None:
            classify(*pending.result())
        mc.result()
    rep.notes["driving_model_checking_validation_wall_s"] = round(time.time() - t0, 2)
    tv["wall_s"] = round(tv["wall_s"], 2)
    rep.add_tv(tv, stats["chains"], judged_pages[0])
    rep.notes["chains"] = stats
    rep.notes["failing_chains_by_clauses"] = per_name
    st_res = self_test(ok_traces)
    if st_res is None or stats["judged_ok"] == 0 or stats["multi_page_ok"] == 0:
        if not rep.violations:
            raise MachineryError("no accepted judged chain of two or more pages: the check exercised nothing (%s)" % stats)
        # a tree that fails every multi-page chain leaves no accepted chain to corrupt: the violations are the result
        st_res = "not run: no accepted judged chain of two or more pages"
    rep.notes["self_test"] = st_res
    for t in [x for x in ok_traces if len(x["pages"]) >= 2][:3]:
        rep.sample({"id": t["id"], "code": t["code"], "start": t["start"],
                    "identity_lengths": [[o, len(b)] for o, b in t["identity"]][:12],
                    "pages": [{"req": bytes(p["req"]).hex(), "rsp_len": len(p["rsp"]), "rsp_head": bytes(p["rsp"][:7]).hex(),
                               "objects": [o for o, _ in p["cli"]["objs"]][:12]} for p in t["pages"][:5]]})
    rep.cov["rule"] = ("cases = client chains (identity, read code, start id) run through ServerDecoder.decode -> execute -> encode -> "
                       "ClientDecoder.decode; evaluations = pages judged by TLC. Sources: identities of the model checker's families "
                       "concretised (small families completely, large ones sampled), random identities over ids 0..6 and 0x80..0xFF "
                       "(0..120 objects, lengths biased to 0,1,100,121..123,200,243,244,245 and uniform 0..245, bytes and ASCII str "
                       "values), exact-fit pages (objects summing to 245/246/247 bytes); read codes 1-4; start ids 0, populated, "
                       "unpopulated (5, 7, 130). distinct_nontrivial counts distinct (code, start=0?, judged?, pages, first six "
                       "response lengths) tuples.")
    rep.cov["exhaustive"] = False
    rep.assumptions += ["TLC 1.8.0 and CommunityModules are correct",
                        "spec/Mei.tla transcribes Modbus Application Protocol v1.1b3 section 6.21 and property C20 correctly",
                        "a value of 245 bytes or more fits no 253-byte PDU: identities containing one are judged on the size bound "
                        "and chain termination only (DESIGN.md, C20)",
                        "individual access (code 4) is judged for a populated object only; for an unset object an exception 02, "
                        "an empty answer and an empty object are all accepted",
                        "the identity is installed through the public ModbusDeviceIdentification.update(); values are bytes, "
                        "or ASCII str for one identity in five; list-valued objects are not in the quantifier",
                        "the client follows the chain with the fields its own decoder produced; TLC compares them with its own "
                        "decode of the recorded bytes (clause ClientDecode)"]
    return rep.finish()
