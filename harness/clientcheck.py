"""C08 (only the own reply is returned) and C13 (bounded, no raise, retry flags, recovery): ClientTxnMC model-checked,
every script of the model concretised and run on the real synchronous clients under a scripted transport and a
virtual clock; each transaction validated by TLC (ClientTrace)."""
import copy
import itertools
import os
import random

import client_drv as C
from vcommon import (Report, model_check, model_check_expect_violation, validate_traces, seed, MachineryError,
                     open_findings, SPEC)

OUTCOMES = ["own", "ownExc", "staleOwn", "foreign", "nothing", "late", "short", "garbage", "oserror", "close"]
C08_CLAUSES = {"OwnOnly", "NoInvention", "RequestFrame"}
C13_CLAUSES = {"SendBound", "NoRaise", "Honoured"}


def run_history(tid, client_name, cfg, scripts, rng, tid0=None, uid=None):
    clock = C.VClock()
    kind0 = C.CLIENTS[client_name][0]
    line = C.Line(clock, kind0)
    line.echo = client_name.endswith("-echo")
    txns = []
    with C.Patches(clock, line):
        kind, client, dec = C.make_client(client_name, cfg)
        if tid0 is not None:
            client.transaction.tid = tid0
        t = C.Transaction(client_name, kind, client, dec, clock, line, rng)
        for sc in scripts:
            u = uid if uid is not None else rng.choice([1, 2, 17, 247])
            if sc == "CONNFAIL":
                try:
                    client.close()
                except Exception:
                    pass
                txns.append(t.run(u, ["own"], connect_ok=False))
            else:
                txns.append(t.run(u, list(sc)))
        try:
            client.close()
        except Exception:
            pass
    return {"id": tid, "kind": kind0, "client": client_name, "cfg": cfg, "txns": txns}


def gen(prop, tier, rng):
    traces = []
    clients = list(C.CLIENTS)
    k = 0
    cfgs = [{"retries": r, "roe": e, "roi": i} for r in (0, 1, 2, 3) for e in (0, 1) for i in (0, 1)]
    maxlen = 2 if tier == "quick" else 3
    scripts = [list(s) for n in range(1, maxlen + 1) for s in itertools.product(OUTCOMES, repeat=n)]
    if tier == "quick":
        # every 1- and 2-outcome script of the model, on a rotating selection of clients / configurations
        plan = [(scripts[j], cfgs[(j * 5 + c) % len(cfgs)], clients[(j + c) % len(clients)]) for j in range(len(scripts)) for c in range(16)]
    else:
        plan = [(sc, cfg, cl) for sc in scripts for cfg in cfgs for cl in clients if rng.random() < 0.25]
    for sc, cfg, cl in plan:
        if C.POISONED:
            break              # a call hung in real time (it is in the traces as HANG): later histories would only repeat it
        if cl == "udp" and any(o in ("short", "close") for o in sc):
            sc = [o if o not in ("short", "close") else "nothing" for o in sc]
        if cl != "tcp" and "close" in sc:
            sc = [o if o != "close" else "nothing" for o in sc]
        hist = [sc, ["own"]]                     # faulty transaction, then a healthy one (recovery)
        if rng.random() < 0.15:
            hist = [["own"]] + hist
        if rng.random() < 0.05:
            hist = hist + ["CONNFAIL", ["own"]]
        tid0 = rng.choice([None, None, 65533, 65534, 65535])
        cfg = dict(cfg, backoff=rng.choice([-1, -1, 0, 0.05, 2]))      # the documented back-off option: default, none, short, long
        traces.append(run_history("c%d" % k, cl, cfg, hist, rng, tid0=tid0))
        k += 1
    return traces


def state_machine(rep, traces, prop):
    """spec/ClientState.tla (growth beyond the listed properties, DESIGN 9.10): the assignments to client.state recorded during every
    call are validated as walks of the state machine.  A rejection is a divergence of that model, never a verdict on C08 / C13."""
    res = model_check("ClientStateMC", "ClientStateMC.cfg", workers=4, timeout=300)
    rep.add_mc(res, "ClientStateMC.cfg")
    bad, _ = model_check_expect_violation("ClientStateMC", "ClientStateMC_dev.cfg", workers=4)
    if not bad:
        raise MachineryError("ClientState with deviation NoSettle satisfies RtuSendsFromIdle: vacuous")
    st_traces = [{"id": t["id"], "kind": t["kind"], "txns": [{"s0": x["s0"], "states": x["states"], "how": x["how"]} for x in t["txns"]]}
                 for t in traces if t["txns"]]
    verd, st = validate_traces("ClientStateTrace", "ClientStateTrace.cfg", st_traces)
    rep.add_tv(st, len(st_traces), sum(len(x["states"]) for t in st_traces for x in t["txns"]))
    out = [i for i, v in verd.items() if v["status"] != "OK"]
    byid = {t["id"]: t for t in traces}
    for i in out[:5]:
        d = verd[i].get("detail", {})
        print("MODEL-DIVERGENCE %s: the client.state assignments of call %d of history %s (%s) are not a walk of spec/ClientState.tla: "
              "from state %s assigned %s, stuck at assignment %s (not a listed property; reported, not a violation)"
              % (prop, verd[i]["step"], i, byid[i]["client"], d.get("s0"), d.get("states"), d.get("stuck")))
    # teeth: an accepted call with an assignment removed / a send that skips the settling step must be rejected
    good = next((t for t in st_traces if verd.get(t["id"], {}).get("status") == "OK" and t["kind"] == "rtu" and len(t["txns"]) >= 2
                 and all(x["how"] == 1 and len(x["states"]) >= 3 for x in t["txns"][:2])), None)
    if good is None:
        # (no such history in this run: the textbook walk - send, wait, process, complete; settle, send, wait, process, complete)
        good = {"id": "syn", "kind": "rtu", "txns": [{"s0": 0, "states": [1, 2, 4, 6], "how": 1}, {"s0": 6, "states": [0, 1, 2, 4, 6], "how": 1}]}
        gv, _ = validate_traces("ClientStateTrace", "ClientStateTrace.cfg", [good], shards=1)
        if gv["syn"]["status"] != "OK":
            raise MachineryError("ClientState self-test: the textbook walk is rejected")
    forged = []
    m = copy.deepcopy(good)
    m["id"] = "st1"
    m["txns"][0]["states"] = [v for v in m["txns"][0]["states"] if v != 1]            # the SENDING assignment removed
    forged.append(m)
    m = copy.deepcopy(good)
    m["id"] = "st2"
    m["txns"] = m["txns"][:2]
    if m["txns"][1]["states"][:1] == [0]:
        m["txns"][1]["states"] = m["txns"][1]["states"][1:]                          # RTU sends without settling to IDLE first
    else:
        m["txns"][1]["states"] = [3] + m["txns"][1]["states"]
    forged.append(m)
    sv, _ = validate_traces("ClientStateTrace", "ClientStateTrace.cfg", forged, shards=1)
    if any(sv[k]["status"] != "FAIL" for k in ("st1", "st2")):
        raise MachineryError("ClientState self-test: forged state walk accepted: %r" % {k: sv[k]["status"] for k in sv})
    shapes = sorted({(t["kind"] == "rtu", x["s0"], tuple(x["states"]), x["how"]) for t in st_traces for x in t["txns"]})
    rep.notes["client_state_machine"] = {"histories": len(st_traces), "calls": sum(len(t["txns"]) for t in st_traces),
                                         "distinct_assignment_sequences": len(shapes), "outside_model": len(out),
                                         "forged_walks_rejected": 2, "mc_states": res.get("distinct")}


def run(prop, tier):
    rng = random.Random(seed() * 7 + int(prop[1:]))
    rep = Report(prop, tier, "model_checking" if prop == "C08" else "fault_enumeration")
    res = model_check("ClientTxnMC", "ClientTxnMC.cfg", workers=8, timeout=600)
    rep.add_mc(res, "ClientTxnMC.cfg")
    base = open(os.path.join(SPEC, "ClientTxnMC.cfg")).read()
    devs = ["ForeignAccepted", "StaleWins"] if prop == "C08" else ["RetriesZeroIsOne", "RetryOnEmptyNeedsRoi", "RaisesOnGarbage"]
    for d in devs:
        bad, _ = model_check_expect_violation("ClientTxnMC", None, workers=8, cfg_text=base.replace("CDev = {}", 'CDev = {"%s"}' % d))
        if not bad:
            raise MachineryError("ClientTxnMC with deviation %s satisfies every property: vacuous" % d)
    rep.notes["model_deviations_rejected_by_tlc"] = devs
    traces = gen(prop, tier, rng)
    # one trace per transaction prefix would hide later transactions behind an earlier failure of the sibling property:
    # validate each transaction on its own (the history only matters for the real client's state)
    flat = []
    for t in traces:
        for j, x in enumerate(t["txns"]):
            flat.append({"id": "%s_%d" % (t["id"], j), "kind": t["kind"], "client": t["client"], "cfg": t["cfg"], "txns": [x],
                         "history": [y["script"] for y in t["txns"][:j]]})
    verdicts, st = validate_traces("ClientTrace", "ClientTrace.cfg", flat)
    rep.add_tv(st, len(flat), sum(len(x["writes"]) + len(x["reads"]) for t in flat for x in t["txns"]))
    byid = {t["id"]: t for t in flat}
    known = {f["id"]: f for f in open_findings(prop)}
    mine_set = C08_CLAUSES if prop == "C08" else C13_CLAUSES
    ok = []
    sibling = 0
    for tid, v in verdicts.items():
        t = byid[tid]
        x = t["txns"][0]
        if v["status"] == "OK":
            ok.append(t)
            rep.distinct((t["client"], t["cfg"]["retries"], t["cfg"]["roe"], t["cfg"]["roi"], tuple(x["script"]), x["result"]["kind"], len(x["writes"])))
            continue
        if "GhostScript" in v["clauses"]:
            raise MachineryError("harness script inconsistent with the frames it fed: %s" % tid)
        mine = set(v["clauses"]) & mine_set
        if prop == "C08" and "Honoured" in v["clauses"] and x["script"][:1] in (["own"], ["ownExc"]) and not x.get("pending_at_start", 0) \
                and not x.get("connfail"):
            # "a well-formed reply from a conformant server ... is returned decoded": the first attempt on a clean line was answered
            # by exactly such a reply and the call did not return it - that is C08's statement too, not only C13's
            mine = mine | {"Honoured"}
        if not mine:
            sibling += 1
            continue
        fid = None
        for kid, f in known.items():
            sig = f.get("signature", {})
            if not (mine <= set(sig.get("clauses", []))):
                continue
            if sig.get("clients") and t["client"] not in sig["clients"]:
                continue
            if sig.get("trigger") and not (set(sig["trigger"]) & set(x["script"])):
                continue
            if sig.get("needs_pending_input") and not x.get("pending_at_start", 0):
                continue
            if sig.get("history_trigger") and not (set(sig["history_trigger"]) & {o for h in t.get("history", []) for o in h}):
                continue
            if "mismatch_within" in sig:
                mm = set(v.get("detail", {}).get("mismatch", []) or [])
                allowed = set(sig["mismatch_within"]) | ({"nomatch"} if x.get("pending_at_start", 0) else set())
                if x["result"]["kind"] == "reply" and not (mm and mm <= allowed):
                    continue
            if sig.get("any_of"):
                # at least one of: a stale/foreign frame in this transaction's script, or unread input at its start
                if not ((set(sig["any_of"]) & set(x["script"])) or x.get("pending_at_start", 0)):
                    continue
            fid = kid
            break
        if fid:
            rep.known(fid)
        else:
            rep.violation("%s-%s" % (t["client"], "-".join(sorted(mine))),
                          {"property": prop, "engine": "ClientTrace", "tag": t["client"], "trace": t, "verdict": v})
    rep.notes["failures_owned_by_sibling_property"] = sibling
    state_machine(rep, traces, prop)
    # self-test: forge a foreign reply / an extra transmission
    b = next((t for t in ok if t["txns"][0]["result"]["kind"] == "reply"), None)
    if b is None:
        raise MachineryError("self-test: no accepted transaction with a reply")
    m = copy.deepcopy(b)
    m["id"] = "st"
    if prop == "C08":
        m["txns"][0]["result"]["pdu"][-1] ^= 1
    else:
        m["txns"][0]["writes"] = m["txns"][0]["writes"] * (m["cfg"]["retries"] + 2)
    sv, _ = validate_traces("ClientTrace", "ClientTrace.cfg", [m], shards=1)
    if sv["st"]["status"] != "FAIL":
        raise MachineryError("self-test: corrupted trace accepted")
    rep.notes["self_test"] = sv["st"]["clauses"]
    for t in ok[:3]:
        x = t["txns"][0]
        rep.sample({"id": t["id"], "client": t["client"], "cfg": t["cfg"], "script": x["script"],
                    "writes": [bytes(w).hex() for w in x["writes"]], "reads": x["reads"][:6], "result": x["result"]["kind"],
                    "result_pdu": bytes(x["result"]["pdu"]).hex()})
    rep.cov["rule"] = ("cases = client.execute() calls of the real synchronous clients (TCP, RTU-over-TCP, UDP, serial RTU/ASCII/binary) under "
                       "a scripted transport and a virtual clock: every script of 1-2 (quick) / 1-3 (thorough) outcomes per attempt out of 9, "
                       "retries 0..3, both retry flags, followed by a healthy transaction; distinct_nontrivial counts distinct (client, "
                       "configuration, script, result kind, transmissions) tuples among accepted transactions.")
    rep.assumptions += ["TLC 1.8.0 and CommunityModules are correct",
                        "socket/select/time/serial are replaced by a scripted transport and a virtual clock (DESIGN.md 2.5)",
                        "the returned object is identified with the raw PDU its decoder was given (recording decoder proxy)"]
    return rep.finish()
