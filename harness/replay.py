"""bin/check Cxx --replay <file>: re-execute the inputs of a recorded violation against the current /repo and let TLC
judge the new trace (engines DataModel, Blocks, Framing, Server); for the other engines the recorded trace itself is
re-validated by TLC and the inputs are printed."""
import json

from vcommon import validate_traces, MachineryError


def run(prop, path):
    with open(path) as f:
        p = json.load(f)
    eng = p.get("engine")
    t = p["trace"]
    mode = "re-executed"
    if t.get("recorded"):
        # recorded while the repository's own test `t["test"]` ran: re-record by running the tests again (any check does), here the
        # recorded history itself is judged again
        print("trace recorded from the repository's test %s" % t.get("test"))
        eng_rec, eng = eng, "recorded"
    if eng == "DataModelTrace":
        import dm
        nt = dm.run_history(t["id"], t["cfg"], [bytes(e["req"]) for e in t["ev"]], path=t.get("path", "direct"))
        v, _ = validate_traces("DataModelTrace", "DataModelTrace.cfg", [nt], shards=1)
    elif eng == "BlocksTrace":
        import blockscheck as B
        ops = [{k: x for k, x in e.items() if k not in ("raised", "chg", "ext", "res")} for e in t["ev"]]
        if t["level"] == "block":
            bits = any(isinstance(e.get("res"), list) and all(x in (0, 1) for x in e["res"]) for e in t["ev"]) and t["cfg"]["def"] in (0, 1)
            nt = B.block_trace(t["id"], t["cfg"], ops, bits)
        elif t["level"] == "ctx":
            nt = B.ctx_trace(t["id"], t["cfg"], ops)
        else:
            nt = B.server_trace(t["id"], t["cfg"]["single"], t["cfg"]["reg"], ops)
        v, _ = validate_traces("BlocksTrace", "BlocksTrace.cfg", [nt], shards=1)
    elif eng == "FramingTrace" and all(c["op"] == "feed" for c in t["calls"]):
        import framingcheck as FC
        data = b"".join(bytes(c["chunk"]) for c in t["calls"])
        cuts, pos = [], 0
        for c in t["calls"][:-1]:
            pos += len(c["chunk"])
            cuts.append(pos)
        nt = FC.run_stream(t["id"], t["mode"], t["kind"], t["dir"], data, t["sent"], cuts, [1] + [x["uid"] for x in t["sent"][:1]], False, g=t.get("g", 0))
        v, _ = validate_traces("FramingTrace", "FramingTrace.cfg", [nt], shards=1)
    elif eng == "ServerTrace":
        import servercheck as SC
        case = SC.Case(t["id"], t["mode"], t["fe"], t["kind"], t["cfg"], t["units"])
        nfeed = len([e for e in t["ev"] if e["op"] == "feed"])
        has_probe = any(e["op"] == "probe" for e in t["ev"])
        nconn = len(t["sent"]) - (1 if has_probe and t["fe"] != "syncSerial" else 0)
        case.streams = [bytes(s) for s in t["streams"][:nconn]]
        case.sent = [list(s) for s in t["sent"][:nconn]]
        case.schedule = [(e["conn"], e["n"]) for e in t["ev"] if e["op"] == "feed"]
        probe = None
        if has_probe and t["fe"] != "syncSerial":
            if t.get("probe_existing"):
                # the probe was sent on the last connection, which had been open and idle: take it off that stream again
                nconn = len(t["sent"])
                case.streams = [bytes(s) for s in t["streams"]]
                case.sent = [list(s) for s in t["sent"]]
                pg = case.sent[-1].pop()
                pb = case.streams[-1][pg["start"] - 1:]
                case.streams[-1] = case.streams[-1][:pg["start"] - 1]
                case.probe_existing = True
            else:
                pg = t["sent"][-1][0]
                pb = bytes(t["streams"][-1])
            probe = {"bytes": pb, "uid": pg["uid"], "tid": pg["tid"], "pdu": pg["pdu"]}
        nt = SC.run_case(case, probe=probe)
        v, _ = validate_traces("ServerTrace", "ServerTrace.cfg", [nt], shards=1)
    else:
        mode = "recorded trace re-validated (this engine's inputs are not re-executable from the file)"
        nt = t
        module = (eng_rec if eng == "recorded" else eng) or "DataModelTrace"
        v, _ = validate_traces(module, module + ".cfg", [t], shards=1)
    verdict = v[nt["id"]]
    print("replay of %s: %s; TLC verdict %s %s at step %s" % (path, mode, verdict["status"], verdict["clauses"], verdict["step"]))
    if verdict["status"] == "FAIL":
        print("VIOLATION property=%s replay=%s" % (prop, path))
        return 1
    return 0
