"""pytest plugin: records what the repository's OWN test-suite makes the real code do, in the trace formats of the
TLA+ trace specifications, so that TLC judges every step of executions the maintainers wrote (not only ours).

Loaded with `-p repotrace_plugin` (PYTHONPATH=/verif/harness) and switched on by PYMODBUS_VERIF_TRACE=<output file>.
Nothing in /repo is edited: the recorders wrap methods of the imported classes for the duration of the test session.

Recorders (each event is logged at the public call's return, error path included):
  blocks   ModbusSequentialDataBlock / ModbusSparseDataBlock validate/getValues/setValues/reset  -> BlocksTrace level "block"
           ModbusSlaveContext validate/getValues/setValues                                       -> BlocksTrace level "ctx"
  pdu      encode()/decode() of every registered message class                                   -> PduTrace "enc"/"dec" events
  framing  processIncomingPacket / addToFrame / buildPacket of the four framers                  -> FramingTrace (mode c07 + build)
  payload  BinaryPayloadBuilder add_*/to_registers, BinaryPayloadDecoder decode_*                -> PayloadTrace add/regs/rawdec

Soundness rules (a recorded trace must never accuse code that is right):
  * only plain values inside the specification's domain are logged; a Mock, None or out-of-range value ends the trace there;
  * the abstract state is re-read before every call; if it is not what the previous call left (the test poked the
    object's internals), the trace ends there;
  * nested calls (a context calling its block, a decoder calling decode of a sub-message) are logged on their own object only.
"""
import json
import os
import struct

OUT = os.environ.get("PYMODBUS_VERIF_TRACE")

_state = {"test": "?", "n": 0, "dropped": {}, "depth": 0}
BLOCKS, CTXS, PDUS, FRAMERS, PAYLOADS = [], [], [], [], []
MAXCELLS = 70000


def _drop(why):
    _state["dropped"][why] = _state["dropped"].get(why, 0) + 1


def _nid():
    _state["n"] += 1
    return "%s#%d" % (_state["test"], _state["n"])


def _is_int(x):
    return isinstance(x, int)   # bool is an int: coils


def _u16(x):
    return isinstance(x, int) and not isinstance(x, bool) and 0 <= x <= 0xFFFF


def _u8(x):
    return isinstance(x, int) and not isinstance(x, bool) and 0 <= x <= 0xFF


# ------------------------------------------------------------------------------------------------ blocks
def _snap(block):
    return {int(a): int(v) for a, v in block}


def _block_cfg(b, seq):
    if seq:
        vals = b.values
        if not isinstance(vals, list) or not vals or len(vals) > MAXCELLS or not all(_is_int(v) for v in vals):
            return None
        if not _is_int(b.address) or not _is_int(b.default_value) or int(b.default_value) != 0:
            return None
        return {"kind": "seq", "start": int(b.address), "size": len(vals), "def": 0,
                "ov": [[int(b.address) + k, int(v)] for k, v in enumerate(vals) if int(v) != 0], "fail": 0}
    vals = b.values
    if not isinstance(vals, dict) or not vals or len(vals) > MAXCELLS:
        return None
    if not all(_is_int(k) and not isinstance(k, bool) and _is_int(v) for k, v in vals.items()):
        return None
    if not _is_int(b.default_value) or int(b.default_value) != 0:
        return None
    return {"kind": "sparse", "keys": sorted(int(k) for k in vals), "def": 0,
            "ov": [[int(k), int(v)] for k, v in vals.items() if int(v) != 0], "fail": 0}


class _Rec:
    """per-object recording state"""
    def __init__(self, kind):
        self.kind = kind
        self.id = _nid()
        self.test = _state["test"]
        self.cfg = None
        self.ev = []
        self.last = None
        self.dead = False
        self.depth = 0


def _rec_of(obj, table, make):
    r = obj.__dict__.get("_verif_rec")
    if r is None:
        r = make()
        obj.__dict__["_verif_rec"] = r
        table.append(r)
    return r


def _wrap_block(cls, seq):
    o_init, o_val, o_get, o_set, o_reset = cls.__init__, cls.validate, cls.getValues, cls.setValues, cls.reset

    def start(self):
        """-> rec ready for one more event, or None"""
        r = self.__dict__.get("_verif_rec")
        if r is None or r.dead or r.depth:
            return None
        try:
            now = _snap(self)
        except Exception:
            r.dead = True
            return None
        if r.last is not None and now != r.last:
            r.dead = True           # the test (or another owner) changed the block behind our back
            _drop("block:poked")
            return None
        r.last = now
        return r

    def finish(self, r, rec):
        try:
            after = _snap(self)
        except Exception as ex:
            rec["raised"] = rec["raised"] or "iter:" + type(ex).__name__
            after = {}
            r.dead = True
        before = r.last
        rec["ext"] = 1 if before.keys() != after.keys() else 0
        rec["chg"] = [[a, after[a]] for a in after if a in before and after[a] != before[a]]
        r.last = after
        r.ev.append(rec)

    def __init__(self, *a, **k):
        o_init(self, *a, **k)
        try:
            cfg = _block_cfg(self, seq)
        except Exception:
            cfg = None
        if cfg is None:
            _drop("block:cfg")
            return
        r = _Rec("block")
        r.cfg = cfg
        self.__dict__["_verif_rec"] = r
        BLOCKS.append(r)

    def validate(self, address, count=1):
        r = start(self)
        if r is None or not (_is_int(address) and _is_int(count)):
            if r is not None:
                r.dead = True
            return o_val(self, address, count)
        rec = {"op": "validate", "a": int(address), "n": int(count), "res": 0, "raised": "", "chg": [], "ext": 0}
        r.depth += 1
        try:
            res = o_val(self, address, count)
            rec["res"] = 1 if res else 0
            return res
        except Exception as ex:
            rec["raised"] = type(ex).__name__
            raise
        finally:
            r.depth -= 1
            finish(self, r, rec)

    def getValues(self, address, count=1):
        r = start(self)
        if r is None or not (_is_int(address) and _is_int(count)):
            if r is not None:
                r.dead = True
            return o_get(self, address, count)
        rec = {"op": "get", "a": int(address), "n": int(count), "res": [], "raised": "", "chg": [], "ext": 0}
        r.depth += 1
        try:
            res = o_get(self, address, count)
            try:
                rec["res"] = [int(v) for v in res]
            except Exception:
                rec["raised"] = "result:" + type(res).__name__
            return res
        except Exception as ex:
            rec["raised"] = type(ex).__name__
            raise
        finally:
            r.depth -= 1
            finish(self, r, rec)

    def setValues(self, address, values):
        r = start(self)
        vals = values if isinstance(values, list) else [values]
        if r is None or not _is_int(address) or not vals or not all(_is_int(v) for v in vals):
            if r is not None:
                r.dead = True
            return o_set(self, address, values)
        rec = {"op": "set", "a": int(address), "vals": [int(v) for v in vals], "raised": "", "chg": [], "ext": 0}
        r.depth += 1
        try:
            return o_set(self, address, values)
        except Exception as ex:
            rec["raised"] = type(ex).__name__
            raise
        finally:
            r.depth -= 1
            finish(self, r, rec)

    def reset(self):
        r = start(self)
        if r is None:
            return o_reset(self)
        rec = {"op": "reset", "raised": "", "chg": [], "ext": 0}
        r.depth += 1
        try:
            return o_reset(self)
        except Exception as ex:
            rec["raised"] = type(ex).__name__
            raise
        finally:
            r.depth -= 1
            finish(self, r, rec)

    cls.__init__, cls.validate, cls.getValues, cls.setValues, cls.reset = __init__, validate, getValues, setValues, reset


TABLE_OF = {1: "c", 5: "c", 15: "c", 2: "d", 3: "h", 6: "h", 16: "h", 22: "h", 23: "h", 4: "i"}


def _wrap_context(cls):
    o_init, o_val, o_get, o_set = cls.__init__, cls.validate, cls.getValues, cls.setValues

    def dump(r):
        return {bid: _snap(b) for bid, b in r.blocks.items()}

    def start(self):
        r = self.__dict__.get("_verif_rec")
        if r is None or r.dead or r.depth:
            return None
        try:
            now = dump(r)
            same_store = all(self.store[t] is r.blocks[r.cfg["map"][t]] for t in "cdhi")
        except Exception:
            r.dead = True
            return None
        if not same_store or (r.last is not None and now != r.last) or bool(self.zero_mode) != bool(r.cfg["zero"]):
            r.dead = True
            _drop("ctx:poked")
            return None
        r.last = now
        return r

    def finish(self, r, rec):
        try:
            after = dump(r)
        except Exception as ex:
            rec["raised"] = rec["raised"] or "iter:" + type(ex).__name__
            after = {bid: {} for bid in r.blocks}
            r.dead = True
        chg, ext = [], 0
        for bid in r.last:
            b, a = r.last[bid], after[bid]
            if b.keys() != a.keys():
                ext = 1
            chg += [[bid, addr, a[addr]] for addr in a if addr in b and a[addr] != b[addr]]
        rec["chg"], rec["ext"] = chg, ext
        r.last = after
        r.ev.append(rec)

    def __init__(self, *a, **k):
        o_init(self, *a, **k)
        try:
            ids, blocks, bmap = {}, {}, {}
            for t in "cdhi":
                b = self.store[t]
                if id(b) not in ids:
                    ids[id(b)] = "b%d" % len(ids)
                    blocks[ids[id(b)]] = b
                bmap[t] = ids[id(b)]
            cfgs = {}
            for bid, b in blocks.items():
                n = type(b).__name__
                if n not in ("ModbusSequentialDataBlock", "ModbusSparseDataBlock"):
                    raise ValueError(n)
                c = _block_cfg(b, n == "ModbusSequentialDataBlock")
                if c is None:
                    raise ValueError("cfg")
                cfgs[bid] = c
            r = _Rec("ctx")
            r.cfg = {"zero": 1 if self.zero_mode else 0, "map": bmap, "blocks": cfgs}
            r.blocks = blocks
            self.__dict__["_verif_rec"] = r
            CTXS.append(r)
        except Exception:
            _drop("ctx:cfg")

    def call(self, op, orig, fx, address, third, rec, args):
        r = start(self)
        if r is None or fx not in TABLE_OF or not _is_int(address):
            if r is not None:
                r.dead = True
            return orig(self, *args)
        rec.update({"op": op, "fc": int(fx), "a": int(address), "raised": "", "chg": [], "ext": 0})
        r.depth += 1
        try:
            res = orig(self, *args)
            if op == "cvalidate":
                rec["res"] = 1 if res else 0
            elif op == "cget":
                try:
                    rec["res"] = [int(v) for v in res]
                except Exception:
                    rec["raised"] = "result:" + type(res).__name__
            return res
        except Exception as ex:
            rec["raised"] = type(ex).__name__
            raise
        finally:
            r.depth -= 1
            finish(self, r, rec)

    def validate(self, fx, address, count=1):
        if not _is_int(count):
            return o_val(self, fx, address, count)
        return call(self, "cvalidate", o_val, fx, address, count, {"n": int(count), "res": 0}, (fx, address, count))

    def getValues(self, fx, address, count=1):
        if not _is_int(count):
            return o_get(self, fx, address, count)
        return call(self, "cget", o_get, fx, address, count, {"n": int(count), "res": []}, (fx, address, count))

    def setValues(self, fx, address, values):
        if not isinstance(values, list) or not values or not all(_is_int(v) for v in values):
            r = self.__dict__.get("_verif_rec")
            if r is not None:
                r.dead = True
            return o_set(self, fx, address, values)
        return call(self, "cset", o_set, fx, address, values, {"vals": [int(v) for v in values]}, (fx, address, values))

    cls.__init__, cls.validate, cls.getValues, cls.setValues = __init__, validate, getValues, setValues


# ------------------------------------------------------------------------------------------------ pdu
U16F = ("addr", "qty", "val", "andm", "orm", "raddr", "rqty", "waddr", "sub", "count", "evcount", "msgcount")
U8F = ("code", "status", "oid", "conf", "more", "next")
BITF = ("on", "ready", "run")


def _sane(m):
    """is the projected message inside the domain of spec/ModbusPDU.tla (plain integers of the right width)?"""
    if not isinstance(m, dict) or not isinstance(m.get("t"), str) or ":" in m["t"] or m["t"] in ("none", "x"):
        return False
    for k, v in m.items():
        if k == "t":
            continue
        if k in U16F:
            ok = _u16(v)
        elif k == "fc":
            ok = _u8(v) and v < 128
        elif k in U8F:
            ok = _u8(v)
        elif k in BITF:
            ok = v in (0, 1)
        elif k == "bits":
            ok = isinstance(v, list) and all(x in (0, 1) for x in v)
        elif k in ("regs", "data"):
            ok = isinstance(v, list) and all(_u16(x) for x in v)
        elif k in ("events", "id"):
            ok = isinstance(v, list) and all(_u8(x) for x in v)
        elif k == "recs":
            ok = isinstance(v, list) and all(isinstance(r, dict) and all(
                (_u16(y) if f in ("file", "rec", "len") else (isinstance(y, list) and all(_u16(z) for z in y))) for f, y in r.items()) for r in v)
        elif k == "objs":
            ok = isinstance(v, list) and all(isinstance(o, dict) and _u8(o.get("id")) and isinstance(o.get("val"), list)
                                             and all(_u8(z) for z in o["val"]) for o in v)
        else:
            ok = False
        if not ok:
            return False
    return True


def _wrap_pdu():
    import pdu_drv as P
    from pymodbus.pdu import ModbusRequest, ExceptionResponse
    from pymodbus import diag_message as dg
    import pymodbus.bit_read_message, pymodbus.bit_write_message, pymodbus.register_read_message  # noqa
    import pymodbus.register_write_message, pymodbus.other_message, pymodbus.file_message, pymodbus.mei_message  # noqa
    import sys
    from pymodbus.pdu import ModbusPDU
    classes = []
    for modname in ("bit_read_message", "bit_write_message", "register_read_message", "register_write_message",
                    "other_message", "file_message", "mei_message", "diag_message"):
        mod = sys.modules["pymodbus." + modname]
        for name in dir(mod):
            c = getattr(mod, name)
            # base classes too: most encode()/decode() bodies live in ReadBitsRequestBase and friends
            if isinstance(c, type) and c.__module__ == mod.__name__ and issubclass(c, ModbusPDU):
                classes.append(c)
    classes.append(ExceptionResponse)

    def proj(o):
        m = P.project(o)
        if isinstance(m.get("t"), str) and ":wrongclass:" in m["t"]:
            m["t"] = m["t"].split(":")[0]      # which class the test chose to call is not the decoder's doing
        return m

    def wrap(c):
        if "encode" in c.__dict__:
            o_enc = c.__dict__["encode"]

            def encode(self, *a, **k):
                if _state["depth"] or type(self) is not c and "encode" in type(self).__dict__:
                    return o_enc(self, *a, **k)
                try:
                    m = proj(self)
                    fc = self.function_code
                    ok = _sane(m) and _u8(fc)
                except Exception:
                    ok = False
                if not ok:
                    _drop("pdu:enc-domain")
                    return o_enc(self, *a, **k)
                e = {"op": "enc", "m": m, "bytes": [], "raised": ""}
                _state["depth"] += 1
                try:
                    res = o_enc(self, *a, **k)
                    if isinstance(res, (bytes, bytearray)):
                        e["bytes"] = [fc] + list(res)
                    else:
                        e["raised"] = "result:" + type(res).__name__
                    return res
                except Exception as ex:
                    e["raised"] = type(ex).__name__
                    raise
                finally:
                    _state["depth"] -= 1
                    PDUS.append({"id": _nid(), "test": _state["test"], "tag": m["t"], "ev": [e]})
            c.encode = encode
        if "decode" in c.__dict__:
            o_dec = c.__dict__["decode"]

            def decode(self, data, *a, **k):
                if _state["depth"] or type(self) is not c and "decode" in type(self).__dict__ or not isinstance(data, (bytes, bytearray)):
                    return o_dec(self, data, *a, **k)
                fc = getattr(self, "function_code", None)
                try:
                    # only a decode into an object still in its freshly constructed state says something about the wire format
                    # (decoding into a used object is C02's subject and is driven there)
                    fresh = _u8(fc) and proj(self) == proj(type(self)())
                except Exception:
                    fresh = False
                if not fresh:
                    _drop("pdu:dec-used-object")
                    return o_dec(self, data, *a, **k)
                e = {"op": "dec", "dir": "req" if isinstance(self, ModbusRequest) else "rsp", "bytes": [fc] + list(data),
                     "got": {"t": "none"}, "raised": ""}
                _state["depth"] += 1
                keep = True
                try:
                    res = o_dec(self, data, *a, **k)
                    try:
                        got = proj(self)
                        if _sane(got):
                            e["got"] = got
                        else:
                            keep = False
                    except Exception:
                        keep = False
                    return res
                except Exception as ex:
                    e["raised"] = type(ex).__name__
                    raise
                finally:
                    _state["depth"] -= 1
                    if keep:
                        PDUS.append({"id": _nid(), "test": _state["test"], "tag": e["got"].get("t", "?"), "ev": [e]})
                    else:
                        _drop("pdu:dec-domain")
            c.decode = decode
    for c in classes:
        wrap(c)


# ------------------------------------------------------------------------------------------------ framing
def _wrap_framers():
    from pymodbus.framer.socket_framer import ModbusSocketFramer
    from pymodbus.framer.rtu_framer import ModbusRtuFramer
    from pymodbus.framer.ascii_framer import ModbusAsciiFramer
    from pymodbus.framer.binary_framer import ModbusBinaryFramer
    from pymodbus.factory import ServerDecoder, ClientDecoder
    from pymodbus.pdu import ModbusPDU

    def rec_of(fr, kind):
        r = fr.__dict__.get("_verif_rec")
        if r is None:
            r = _Rec("framer")
            r.kind = kind
            dec = fr.__dict__.get("decoder")
            r.dir = "req" if type(dec) is ServerDecoder else ("rsp" if type(dec) is ClientDecoder else None)
            r.calls = []
            object.__setattr__(fr, "_verif_rec", r)
            FRAMERS.append(r)
        return r

    def wrap(cls, kind):
        o_pip, o_add, o_build = cls.processIncomingPacket, cls.addToFrame, cls.buildPacket

        def __setattr__(self, name, value):
            if name == "_buffer":
                r = self.__dict__.get("_verif_rec")
                old = self.__dict__.get("_buffer", b"")
                if r is not None and not r.depth and isinstance(value, (bytes, bytearray)) and isinstance(old, (bytes, bytearray)):
                    if not bytes(old).endswith(bytes(value)):
                        r.dead = True      # the test wrote the receive buffer directly: the stream is no longer what was fed
                        _drop("framer:poked")
            object.__setattr__(self, name, value)

        def addToFrame(self, message):
            r = rec_of(self, kind)
            if r.depth or r.dead or not isinstance(message, (bytes, bytearray)):
                if not r.depth:
                    r.dead = True
                return o_add(self, message)
            r.depth += 1
            try:
                return o_add(self, message)
            finally:
                r.depth -= 1
                r.calls.append({"op": "feed", "chunk": list(message), "delivered": [], "raised": "", "buflen": 0})

        def processIncomingPacket(self, data, callback, unit, **kwargs):
            r = rec_of(self, kind)
            if r.depth or r.dead or r.dir is None or not isinstance(data, (bytes, bytearray)):
                if not r.depth:
                    r.dead = True
                return o_pip(self, data, callback, unit, **kwargs)
            dec = self.decoder
            seen = {}
            o_decode = dec.decode

            def decode(d):
                res = o_decode(d)
                if res is not None:
                    seen[id(res)] = bytes(d)
                return res
            got = []

            def cb(msg):
                pdu = seen.get(id(msg))
                try:
                    ids = {"uid": int(getattr(msg, "unit_id", 0) or 0), "tid": int(getattr(msg, "transaction_id", 0) or 0),
                           "pid": int(getattr(msg, "protocol_id", 0) or 0)}
                except Exception:
                    ids, pdu = None, None
                if pdu is None or ids is None:
                    r.dead = True
                else:
                    got.append(dict(ids, pdu=list(pdu)))
                return callback(msg)
            c = {"op": "feed", "chunk": list(data), "delivered": got, "raised": "", "buflen": 0}
            r.depth += 1
            dec.decode = decode
            try:
                return o_pip(self, data, cb, unit, **kwargs)
            except Exception as ex:
                c["raised"] = type(ex).__name__
                raise
            finally:
                try:
                    del dec.decode
                except Exception:
                    pass
                r.depth -= 1
                if not r.dead:
                    r.calls.append(c)

        def buildPacket(self, message):
            r = rec_of(self, kind)
            if r.depth or not isinstance(message, ModbusPDU):
                return o_build(self, message)
            caught = []
            o_encode = message.encode

            def encode():
                res = o_encode()
                caught.append(res)
                return res
            c = None
            r.depth += 1
            try:
                message.encode = encode
                res = o_build(self, message)
                try:
                    fc = message.function_code
                    ids = (message.transaction_id, message.protocol_id, message.unit_id)
                    if len(caught) == 1 and isinstance(caught[0], (bytes, bytearray)) and _u8(fc) and _u16(ids[0]) and _u16(ids[1]) \
                            and _u8(ids[2]) and isinstance(res, (bytes, bytearray)):
                        c = {"op": "build", "tid": ids[0], "pid": ids[1], "uid": ids[2], "pdu": [fc] + list(caught[0]),
                             "bytes": list(res), "raised": ""}
                except Exception:
                    c = None
                return res
            finally:
                r.depth -= 1
                try:
                    del message.encode
                except Exception:
                    pass
                if c is not None:
                    r.builds = getattr(r, "builds", [])
                    r.builds.append(c)
                else:
                    _drop("framer:build-domain")

        cls.__setattr__ = __setattr__
        cls.processIncomingPacket, cls.addToFrame, cls.buildPacket = processIncomingPacket, addToFrame, buildPacket

    wrap(ModbusSocketFramer, "tcp")
    wrap(ModbusRtuFramer, "rtu")
    wrap(ModbusAsciiFramer, "ascii")
    wrap(ModbusBinaryFramer, "bin")


# ------------------------------------------------------------------------------------------------ payload
FIXED = {"8bit_uint": ("u8", "B"), "8bit_int": ("i8", "b"), "16bit_uint": ("u16", "H"), "16bit_int": ("i16", "h"),
         "16bit_float": ("f16", "e"), "32bit_uint": ("u32", "I"), "32bit_int": ("i32", "i"), "32bit_float": ("f32", "f"),
         "64bit_uint": ("u64", "Q"), "64bit_int": ("i64", "q"), "64bit_float": ("f64", "d")}


def _order(x):
    from pymodbus.constants import Endian
    return {Endian.Big: "big", Endian.Little: "little"}.get(x)


def _wrap_payload():
    from pymodbus.payload import BinaryPayloadBuilder, BinaryPayloadDecoder
    B, D = BinaryPayloadBuilder, BinaryPayloadDecoder
    o_binit, o_regs, o_reset = B.__init__, B.to_registers, B.reset

    def b_init(self, *a, **k):
        o_binit(self, *a, **k)
        try:
            bo, wo = _order(self._byteorder), _order(self._wordorder)
            if bo is None or wo is None or self._payload or getattr(self, "_repack", False):
                _drop("payload:cfg")
                return
            r = _Rec("builder")
            r.bo, r.wo = bo, wo
            self.__dict__["_verif_rec"] = r
            PAYLOADS.append(r)
        except Exception:
            _drop("payload:cfg")

    def b_add(name, t, fmt):
        orig = getattr(B, name)

        def add(self, value):
            r = self.__dict__.get("_verif_rec")
            if r is None or r.dead:
                return orig(self, value)
            try:
                if fmt is not None:
                    img = list(struct.pack(">" + fmt, value))
                elif t == "str":
                    img = list(value.encode() if isinstance(value, str) else bytes(value))
                else:
                    img = [1 if b else 0 for b in value]
                before = self.to_string()
            except Exception:
                r.dead = True
                return orig(self, value)
            ev = {"op": "add", "type": t, "img": img, "out": [], "err": ""}
            try:
                res = orig(self, value)
                after = self.to_string()
                ev["out"] = list(after[len(before):]) if after[:len(before)] == before else list(after)
                return res
            except Exception as ex:
                ev["err"] = type(ex).__name__
                raise
            finally:
                r.ev.append(ev)
        setattr(B, name, add)

    def to_registers(self):
        r = self.__dict__.get("_verif_rec")
        if r is None or r.dead:
            return o_regs(self)
        ev = {"op": "regs", "regs": [], "all": [], "err": ""}
        try:
            ev["all"] = list(self.to_string())
            res = o_regs(self)
            if all(_u16(x) for x in res):
                ev["regs"] = list(res)
            else:
                ev["err"] = "non-register"
            return res
        except Exception as ex:
            ev["err"] = type(ex).__name__
            raise
        finally:
            r.ev.append(ev)

    def reset(self):
        r = self.__dict__.get("_verif_rec")
        if r is not None:
            r.dead = True           # a new payload begins: later events belong to another history
            self.__dict__.pop("_verif_rec", None)
        return o_reset(self)

    B.__init__, B.to_registers, B.reset = b_init, to_registers, reset
    for suffix, (t, fmt) in FIXED.items():
        b_add("add_" + suffix, t, fmt)
    b_add("add_string", "str", None)
    b_add("add_bits", "bits", None)

    o_dinit = D.__init__

    def d_init(self, payload, *a, **k):
        o_dinit(self, payload, *a, **k)
        try:
            bo, wo = _order(self._byteorder), _order(self._wordorder)
            if bo is None or wo is None or not isinstance(payload, (bytes, bytearray)):
                _drop("payload:dcfg")
                return
            r = _Rec("decoder")
            r.bo, r.wo, r.src = bo, wo, list(payload)
            self.__dict__["_verif_rec"] = r
            PAYLOADS.append(r)
        except Exception:
            _drop("payload:dcfg")

    def d_dec(name, t, fmt):
        orig = getattr(D, name)

        def dec(self, *a, **k):
            r = self.__dict__.get("_verif_rec")
            if r is None or r.dead:
                return orig(self, *a, **k)
            if t == "str":
                size = a[0] if a else k.get("size", 1)
            elif t == "bits":
                size = 1
            else:
                size = struct.calcsize(">" + fmt)
            if not _is_int(size) or not _is_int(getattr(self, "_pointer", None)) or list(getattr(self, "_payload", b"")) != r.src:
                r.dead = True
                return orig(self, *a, **k)
            ev = {"op": "rawdec", "type": t, "size": int(size), "src": r.src, "got": [], "ptr_before": -1, "ptr_after": -1, "err": ""}
            try:
                ev["ptr_before"] = int(self._pointer)
                v = orig(self, *a, **k)
                try:
                    if fmt is not None:
                        ev["got"] = list(struct.pack(">" + fmt, v))
                    elif t == "str":
                        ev["got"] = list(v)
                    else:
                        ev["got"] = [1 if b else 0 for b in v]
                except Exception as ex:
                    ev["err"] = "result:" + type(ex).__name__
                return v
            except Exception as ex:
                ev["err"] = type(ex).__name__
                raise
            finally:
                try:
                    ev["ptr_after"] = int(self._pointer)
                except Exception:
                    pass
                r.ev.append(ev)
        setattr(D, name, dec)

    D.__init__ = d_init
    for suffix, (t, fmt) in FIXED.items():
        d_dec("decode_" + suffix, t, fmt)
    d_dec("decode_string", "str", None)
    d_dec("decode_bits", "bits", None)


# ------------------------------------------------------------------------------------------------ pytest hooks
def pytest_configure(config):
    if not OUT:
        return
    from vcommon import import_repo
    import_repo()
    from pymodbus.datastore import ModbusSequentialDataBlock, ModbusSparseDataBlock, ModbusSlaveContext
    _wrap_block(ModbusSequentialDataBlock, True)
    _wrap_block(ModbusSparseDataBlock, False)
    _wrap_context(ModbusSlaveContext)
    _wrap_pdu()
    _wrap_framers()
    _wrap_payload()


def pytest_runtest_setup(item):
    _state["test"] = item.nodeid
    _state["n"] = 0


def pytest_sessionfinish(session, exitstatus):
    if not OUT:
        return
    out = {"blocks": [], "pdu": PDUS, "framing": [], "build": [], "payload": [], "dropped": _state["dropped"]}
    for r in BLOCKS:
        if r.ev:
            out["blocks"].append({"id": r.id, "test": r.test, "level": "block", "cfg": r.cfg, "ev": r.ev, "recorded": 1})
    for r in CTXS:
        if r.ev:
            out["blocks"].append({"id": r.id, "test": r.test, "level": "ctx", "cfg": r.cfg, "ev": r.ev, "recorded": 1})
    for r in FRAMERS:
        if getattr(r, "builds", None):
            out["build"].append({"id": r.id + "b", "test": r.test, "mode": "c03", "kind": r.kind, "dir": r.dir or "req", "g": 0, "sent": [],
                                 "expframes": [], "calls": r.builds, "recorded": 1})
        if r.dir is not None and any(c["delivered"] for c in r.calls):
            out["framing"].append({"id": r.id, "test": r.test, "mode": "c07", "kind": r.kind, "dir": r.dir, "g": 0, "sent": [],
                                   "expframes": [], "calls": r.calls, "recorded": 1})
    for r in PAYLOADS:
        if r.ev:
            out["payload"].append({"id": r.id, "test": r.test, "bo": r.bo, "wo": r.wo, "ev": r.ev, "recorded": 1})
    out["stats"] = {"framers": len(FRAMERS), "framers_dead": sum(1 for r in FRAMERS if r.dead),
                    "framers_mock_decoder": sum(1 for r in FRAMERS if r.dir is None),
                    "blocks": len(BLOCKS), "blocks_dead": sum(1 for r in BLOCKS if r.dead), "contexts": len(CTXS)}
    with open(OUT, "w") as f:
        json.dump(out, f)
