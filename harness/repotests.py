"""Traces recorded from the repository's own test-suite (harness/repotrace_plugin.py).

record() runs the pinned test command of the repository's current working tree once, in a subprocess, with the recording
plugin switched on, and returns the recorded traces grouped by trace specification.  The per-property checks append them to
their own traces, so TLC judges them with the same formulas and they take the same known-finding / violation path.
The test results themselves are not judged here (the baseline does that); only what the code did while the tests ran."""
import json
import os
import shutil
import subprocess

from vcommon import REPO, VERIF, MachineryError, scratch_dir

_cache = {}

# The test files whose executions are recorded: the pure unit tests of the datastore, the codecs, the framers and the payload helpers.
# The client / server test files are left out on purpose: they start reactor threads and touch real sockets (which can block for the
# per-test time-out when several checks run at the same time) and everything they execute of the recorded classes is mocked anyway.
RECORDED_FILES = ["test/test_datastore.py", "test/test_server_context.py", "test/test_payload.py", "test/test_framers.py",
                  "test/test_transaction.py", "test/test_factory.py", "test/test_pdu.py", "test/test_all_messages.py",
                  "test/test_bit_read_messages.py", "test/test_bit_write_messages.py", "test/test_register_read_messages.py",
                  "test/test_register_write_messages.py", "test/test_diag_messages.py", "test/test_other_messages.py",
                  "test/test_file_message.py", "test/test_mei_messages.py", "test/test_events.py", "test/test_device.py",
                  "test/test_utilities.py"]


def record():
    if "d" in _cache:
        return _cache["d"]
    wd = scratch_dir("rt")
    out = os.path.join(wd, "recorded.json")
    env = dict(os.environ)
    env.update({"PYTHONDONTWRITEBYTECODE": "1", "PYMODBUS_VERIF_TRACE": out, "VERIF_REPO": REPO,
                "PYTHONPATH": os.path.join(VERIF, "harness") + os.pathsep + env.get("PYTHONPATH", "")})
    empty = {"blocks": [], "pdu": [], "framing": [], "build": [], "payload": [], "dropped": {}}
    try:
        files = [f for f in RECORDED_FILES if os.path.exists(os.path.join(REPO, f))]
        p = subprocess.run(["/venv/bin/python", "-m", "pytest", "-q", "-p", "no:cacheprovider", "-p", "repotrace_plugin",
                            "--timeout=60", "--continue-on-collection-errors"] + files,
                           cwd=REPO, env=env, stdout=subprocess.PIPE, stderr=subprocess.STDOUT, text=True, timeout=240)
        if not os.path.exists(out):
            # the test session did not finish (e.g. collection crashed on this tree): the recorded traces are an addition to the
            # driven ones, so their absence is reported in the evidence, not raised
            empty["error"] = "no trace file: " + p.stdout[-300:]
            _cache["d"] = empty
            return empty
        with open(out) as f:
            d = json.load(f)
        d["pytest_tail"] = p.stdout.strip().splitlines()[-1:] if p.stdout.strip() else []
    except subprocess.TimeoutExpired:
        empty["error"] = "the repository's tests did not finish within 240 s"
        _cache["d"] = empty
        return empty
    finally:
        shutil.rmtree(wd, ignore_errors=True)
    for grp in ("blocks", "pdu", "framing", "build", "payload"):
        for k, t in enumerate(d.get(grp, [])):
            t["id"] = "rt%s%d" % (grp[:2], k)        # short unique ids; the test node id stays in t["test"]
    _cache["d"] = d
    return d


def note(rep, d, grp):
    """evidence note: what the recording of the repository's tests contributed to this check"""
    rep.notes["repo_test_traces"] = {"group": grp, "traces": len(d.get(grp, [])),
                                     "events": sum(len(t.get("ev", t.get("calls", []))) for t in d.get(grp, [])),
                                     "tests": len({t["test"] for t in d.get(grp, [])}),
                                     "not_recorded": d.get("dropped", {}), "pytest": d.get("pytest_tail"), "error": d.get("error", "")}


if __name__ == "__main__":
    import sys
    from vcommon import validate_traces
    d = record()
    print({k: (len(v) if isinstance(v, list) else v) for k, v in d.items()})
    for grp, mod in (("blocks", "BlocksTrace"), ("pdu", "PduTrace"), ("framing", "FramingTrace"), ("build", "FramingTrace"),
                     ("payload", "PayloadTrace")):
        tr = d[grp]
        if not tr:
            continue
        v, st = validate_traces(mod, mod + ".cfg", tr)
        import collections
        print(grp, collections.Counter(x["status"] for x in v.values()), st)
        for t in tr:
            x = v[t["id"]]
            if x["status"] == "FAIL" or (len(sys.argv) > 1 and x["status"] != "OK"):
                print("  ", x["status"], t["test"], x["clauses"], x["step"], json.dumps(x.get("detail"))[:400])
                ev = t.get("ev", t.get("calls"))[x["step"] - 1]
                print("     ", json.dumps(ev)[:500])
