"""Synchronous clients under a scripted transport and a virtual clock (C08, C13, C14, C15).

socket / select / time / serial.Serial are replaced *in the namespaces of* pymodbus.client.sync,
pymodbus.transaction and pymodbus.framer.rtu_framer; nothing in /repo is edited."""
import random
import struct
import types

from vcommon import import_repo, MachineryError

import_repo()
import socket as real_socket  # noqa: E402
import pymodbus.client.sync as CS  # noqa: E402
import pymodbus.transaction as TX  # noqa: E402
import pymodbus.framer.rtu_framer as RF  # noqa: E402
from pymodbus.factory import ClientDecoder  # noqa: E402
from pymodbus.exceptions import ConnectionException  # noqa: E402
from framing_drv import pyframe  # noqa: E402


_MISSING = object()
POISONED = []      # a client call hung in real time: the process still runs that call in a stray thread
HANG_S = 30


class Watchdog(Exception):
    """virtual time / operation budget exhausted: the call hangs"""


class VClock:
    def __init__(self):
        self.t = 1000.0
        self.ops = 0
        self.hook = None      # scheduler hook (C15)

    def time(self):
        self.ops += 1
        self.t += 0.0005
        if self.ops > 400000 or self.t > 1000.0 + 3600:
            raise Watchdog("virtual time / operation budget exhausted")
        return self.t

    def sleep(self, dt):
        self.ops += 1
        self.t += max(0.0, dt)
        if self.hook:
            self.hook("sleep")
        if self.ops > 400000 or self.t > 1000.0 + 3600:
            raise Watchdog("virtual time / operation budget exhausted")


class Line:
    """the scripted peer: decides, at every write of a request, what arrives afterwards"""

    def __init__(self, clock, kind):
        self.clock, self.kind = clock, kind
        self.rx = bytearray()
        self.closed_by_peer = False
        self.writes = []
        self.reads = []
        self.on_write = None      # callable(data) -> dict(rx=bytes, recv_error=bool, close=bool) or raises OSError
        self.recv_error = False
        self.connect_ok = True
        self.hook = None          # scheduler hook (C15)
        self.pending = []         # [arrival time, bytes]: replies still in flight (latency)
        self.epoch = 0            # connection counter: a late reply can only arrive on the connection it was sent on
        self.echo = False         # RS-485 adaptor with local echo: every byte written comes back first
        self.sizes = []           # datagram boundaries of what is in rx (only a datagram socket looks at them)

    def deliver_due(self, horizon):
        """move replies whose (virtual) arrival time is <= horizon into rx; returns the earliest arrival used"""
        due = sorted([p for p in self.pending if p[0] <= horizon], key=lambda p: p[0])
        if not due:
            return None
        first = due[0]
        self.pending.remove(first)
        self.rx += first[1]
        self.sizes.append(len(first[1]))
        return first[0]

    def write(self, data):
        if self.hook:
            self.hook("send")
        self.recv_error = False
        self.writes.append(bytes(data))
        if self.on_write:
            r = self.on_write(bytes(data))
            if r.get("send_error"):
                raise OSError("scripted send failure")      # (the attempt stays recorded: it was a transmission attempt)
            if self.echo:
                self.rx += bytes(data)
            self.rx += r.get("rx", b"")
            self.sizes += r.get("sizes", [len(r["rx"])] if r.get("rx") else [])
            self.recv_error = bool(r.get("recv_error"))
            self.closed_by_peer = bool(r.get("close"))
        return len(data)


class FakeSocket:
    def __init__(self, line):
        self.line = line
        self.open = True

    def setblocking(self, flag):
        pass

    def settimeout(self, t):
        self.timeout = t

    def _alive(self):
        if not self.open:
            raise OSError(9, "Bad file descriptor")

    def send(self, data):
        self._alive()
        return self.line.write(data)

    def sendto(self, data, addr):
        self._alive()
        return self.line.write(data)

    def recv(self, n):
        self._alive()
        ln = self.line
        if ln.hook:
            ln.hook("recv")
        if ln.recv_error:
            ln.recv_error = False
            raise OSError("scripted receive failure")
        got = bytes(ln.rx[:n])
        del ln.rx[:n]
        ln.reads.append({"asked": int(n), "got": len(got), "att": len(ln.writes)})
        return got

    def recvfrom(self, n):
        self._alive()
        ln = self.line
        if ln.hook:
            ln.hook("recv")
        if ln.recv_error:
            ln.recv_error = False
            raise OSError("scripted receive failure")
        ln.deliver_due(ln.clock.t)
        if not ln.rx:
            tmo = getattr(self, "timeout", None) or 1.0
            arr = ln.deliver_due(ln.clock.t + tmo)          # a datagram still in flight arrives within the socket time-out
            if arr is not None:
                ln.clock.t = max(ln.clock.t, arr)
            else:
                ln.clock.sleep(tmo)
                ln.reads.append({"asked": int(n), "got": 0, "att": len(ln.writes)})
                raise real_socket.timeout("timed out")
        k = ln.sizes.pop(0) if ln.sizes else len(ln.rx)      # one datagram per call; what does not fit the buffer is lost
        got = bytes(ln.rx[:min(n, k)])
        del ln.rx[:k]
        ln.reads.append({"asked": int(n), "got": len(got), "att": len(ln.writes)})
        return got, ("peer", 502)

    def close(self):
        self.open = False


class FakeSerial:
    def __init__(self, line, timeout):
        self.line, self.timeout = line, timeout
        self.is_open = True

    @property
    def in_waiting(self):
        self.line.deliver_due(self.line.clock.t)
        return len(self.line.rx)

    def read(self, n):
        ln = self.line
        if ln.hook:
            ln.hook("recv")
        if ln.recv_error:
            ln.recv_error = False
            raise OSError("scripted receive failure")
        n = int(n or 0)
        ln.deliver_due(ln.clock.t)
        if len(ln.rx) < n:
            ln.clock.sleep(self.timeout or 0.1)      # the port's read timeout elapses
            ln.deliver_due(ln.clock.t)
        got = bytes(ln.rx[:n])
        del ln.rx[:n]
        ln.reads.append({"asked": n, "got": len(got), "att": len(ln.writes)})
        return got

    def write(self, data):
        return self.line.write(data)

    def close(self):
        self.is_open = False


class Patches:
    """context manager installing the fakes"""

    def __init__(self, clock, line):
        self.clock, self.line = clock, line
        self.saved = []

    def __enter__(self):
        clock, line = self.clock, self.line
        ftime = types.SimpleNamespace(time=clock.time, sleep=clock.sleep)

        def create_connection(addr, timeout=None, source_address=None):
            if line.hook:
                line.hook("connect")
            if not line.connect_ok:
                raise OSError("scripted connect failure")
            line.rx.clear()
            del line.sizes[:]
            del line.pending[:]          # a new connection is a new byte stream: nothing of the old one can arrive on it
            line.epoch += 1
            return FakeSocket(line)

        def fsocket(*a, **k):
            if not line.connect_ok:
                raise OSError("scripted connect failure")
            line.rx.clear()
            del line.sizes[:]
            del line.pending[:]
            line.epoch += 1
            return FakeSocket(line)

        def inet_pton(*a):
            raise OSError("not ipv6")
        fsock = types.SimpleNamespace(create_connection=create_connection, socket=fsocket, error=OSError,
                                      timeout=real_socket.timeout, AF_INET=2, AF_INET6=10, SOCK_DGRAM=2, SOCK_STREAM=1,
                                      inet_pton=inet_pton)

        def fselect(r, w, x, timeout=None):
            if line.hook:
                line.hook("select")
            line.deliver_due(clock.t)
            if line.rx or line.closed_by_peer or line.recv_error:
                return (list(r), [], [])
            arr = line.deliver_due(clock.t + max(0.0, timeout or 0.0))
            if arr is not None:
                clock.t = max(clock.t, arr)          # the select wakes up when the reply arrives
                return (list(r), [], [])
            clock.sleep(max(0.0, timeout or 0.0) + 0.001)
            return ([], [], [])
        fsel = types.SimpleNamespace(select=fselect)
        import serial

        def fserial(*a, **k):
            if line.hook:
                line.hook("connect")
            if not line.connect_ok:
                raise serial.SerialException("scripted connect failure")
            line.rx.clear()
            del line.pending[:]          # re-opening the port flushes its buffers
            line.epoch += 1
            return FakeSerial(line, k.get("timeout", 1))
        for mod, name, val in ((CS, "socket", fsock), (CS, "select", fsel), (CS, "time", ftime), (TX, "time", ftime),
                               (RF, "time", ftime), (serial, "Serial", fserial)):
            self.saved.append((mod, name, getattr(mod, name, _MISSING)))     # (a module that does not use the name gets it harmlessly)
            setattr(mod, name, val)
        return self

    def __exit__(self, *a):
        for mod, name, val in reversed(self.saved):
            if val is _MISSING:
                delattr(mod, name)
            else:
                setattr(mod, name, val)
        return False


class RecClientDecoder:
    """client decoder proxy remembering the raw PDU each decoded object came from"""

    def __init__(self):
        self.real = ClientDecoder()
        self.raw = {}

    def decode(self, data):
        o = self.real.decode(data)
        if o is not None:
            self.raw[id(o)] = bytes(data)
        return o

    def lookupPduClass(self, fc):
        return self.real.lookupPduClass(fc)

    def register(self, *a, **k):
        return self.real.register(*a, **k)


CLIENTS = {
    "tcp": ("tcp", lambda kw: CS.ModbusTcpClient("h", 502, **kw)),
    "tcp+rtu": ("rtu", lambda kw: CS.ModbusTcpClient("h", 502, framer=TX.ModbusRtuFramer, **kw)),
    "tcp+ascii": ("ascii", lambda kw: CS.ModbusTcpClient("h", 502, framer=TX.ModbusAsciiFramer, **kw)),
    "tcp+binary": ("bin", lambda kw: CS.ModbusTcpClient("h", 502, framer=TX.ModbusBinaryFramer, **kw)),
    "udp": ("tcp", lambda kw: CS.ModbusUdpClient("h", 502, **kw)),
    "serial-rtu": ("rtu", lambda kw: CS.ModbusSerialClient(method="rtu", port="/dev/x", baudrate=9600, **kw)),
    "serial-ascii": ("ascii", lambda kw: CS.ModbusSerialClient(method="ascii", port="/dev/x", **kw)),
    "serial-binary": ("bin", lambda kw: CS.ModbusSerialClient(method="binary", port="/dev/x", **kw)),
    # the same serial clients behind an adaptor that echoes what is written (handle_local_echo): the echo is not a reply
    "serial-rtu-echo": ("rtu", lambda kw: CS.ModbusSerialClient(method="rtu", port="/dev/x", baudrate=9600, handle_local_echo=True, **kw)),
    "serial-ascii-echo": ("ascii", lambda kw: CS.ModbusSerialClient(method="ascii", port="/dev/x", handle_local_echo=True, **kw)),
}


def make_client(name, cfg, timeout=1):
    kind, ctor = CLIENTS[name]
    kw = {"retries": cfg["retries"], "retry_on_empty": bool(cfg["roe"]), "retry_on_invalid": bool(cfg["roi"]), "timeout": timeout}
    if cfg.get("backoff", -1) != -1:
        kw["backoff"] = cfg["backoff"]         # -1 / absent: the library's default
    if cfg.get("broadcast"):
        kw["broadcast_enable"] = True
    c = ctor(kw)
    dec = RecClientDecoder()
    c.framer.decoder = dec
    _record_state(c)
    return kind, c, dec


def _record_state(c):
    """every assignment to client.state is appended to c._vstates (spec/ClientState.tla): a property on a one-off subclass, so
    no hook in the library is needed and str(client) / isinstance keep working"""
    cls = c.__class__
    init = getattr(c, "state", 0)

    def _get(self):
        return self.__dict__.get("_vstate", init)

    def _set(self, v):
        self.__dict__["_vstate"] = v
        self.__dict__.setdefault("_vstates", []).append(int(v))
    c.__dict__.pop("state", None)
    c.__class__ = type(cls.__name__, (cls,), {"state": property(_get, _set), "__module__": cls.__module__})
    c.__dict__["_vstate"] = init
    c.__dict__["_vstates"] = []


# ---- requests and their conformant replies ---------------------------------------------------------------

def request_pool(rng):
    """(pymodbus request object factory, request PDU, normal reply PDU, exception reply PDU)"""
    from pymodbus import bit_read_message as brm, bit_write_message as bwm, register_read_message as rrm, register_write_message as rwm
    from pymodbus import diag_message as dg
    n = rng.choice([1, 2, 5, 16])
    a = rng.randint(0, 200)
    regs = [rng.randint(0, 65535) for _ in range(n)]
    nb = rng.choice([1, 7, 8, 9, 20])
    bits = [rng.randint(0, 1) for _ in range(nb)]
    packed = bytearray((nb + 7) // 8)
    for i, b in enumerate(bits):
        packed[i // 8] |= b << (i % 8)
    W = lambda ws: b"".join(struct.pack(">H", w) for w in ws)
    v = rng.randint(0, 65535)
    pool = [
        (lambda u: rrm.ReadHoldingRegistersRequest(a, n, unit=u), struct.pack(">BHH", 3, a, n), bytes([3, 2 * n]) + W(regs),
         lambda c, u: c.read_holding_registers(a, n, unit=u)),
        (lambda u: rrm.ReadInputRegistersRequest(a, n, unit=u), struct.pack(">BHH", 4, a, n), bytes([4, 2 * n]) + W(regs),
         lambda c, u: c.read_input_registers(a, n, unit=u)),
        (lambda u: brm.ReadCoilsRequest(a, nb, unit=u), struct.pack(">BHH", 1, a, nb), bytes([1, len(packed)]) + bytes(packed),
         lambda c, u: c.read_coils(a, nb, unit=u)),
        (lambda u: brm.ReadDiscreteInputsRequest(a, nb, unit=u), struct.pack(">BHH", 2, a, nb), bytes([2, len(packed)]) + bytes(packed),
         lambda c, u: c.read_discrete_inputs(a, nb, unit=u)),
        (lambda u: bwm.WriteSingleCoilRequest(a, True, unit=u), struct.pack(">BHH", 5, a, 0xFF00), struct.pack(">BHH", 5, a, 0xFF00),
         lambda c, u: c.write_coil(a, True, unit=u)),
        (lambda u: rwm.WriteSingleRegisterRequest(a, v, unit=u), struct.pack(">BHH", 6, a, v), struct.pack(">BHH", 6, a, v),
         lambda c, u: c.write_register(a, v, unit=u)),
        (lambda u: bwm.WriteMultipleCoilsRequest(a, [bool(b) for b in bits], unit=u),
         struct.pack(">BHHB", 15, a, nb, len(packed)) + bytes(packed), struct.pack(">BHH", 15, a, nb),
         lambda c, u: c.write_coils(a, [bool(b) for b in bits], unit=u)),
        (lambda u: rwm.WriteMultipleRegistersRequest(a, regs, unit=u), struct.pack(">BHHB", 16, a, n, 2 * n) + W(regs), struct.pack(">BHH", 16, a, n),
         lambda c, u: c.write_registers(a, regs, unit=u)),
        (lambda u: rwm.MaskWriteRegisterRequest(a, v, 0x0F0F, unit=u), struct.pack(">BHHH", 22, a, v, 0x0F0F), struct.pack(">BHHH", 22, a, v, 0x0F0F),
         lambda c, u: c.mask_write_register(a, v, 0x0F0F, unit=u)),
        (lambda u: rrm.ReadWriteMultipleRegistersRequest(read_address=a, read_count=n, write_address=a + 1, write_registers=[v], unit=u),
         struct.pack(">BHHHHB", 23, a, n, a + 1, 1, 2) + W([v]), bytes([23, 2 * n]) + W(regs),
         lambda c, u: c.readwrite_registers(read_address=a, read_count=n, write_address=a + 1, write_registers=[v], unit=u)),
        (lambda u: dg.ReturnQueryDataRequest(v, unit=u), struct.pack(">BHH", 8, 0, v), struct.pack(">BHH", 8, 0, v), None),
    ]
    if rng.random() < 0.12:
        # replies of the largest legal size: a 253-byte PDU is a 256-byte RTU frame, a 260-byte MBAP frame, a 513-character ASCII frame
        from pymodbus import other_message as om
        ident = bytes(rng.randrange(256) for _ in range(250))
        big = [rng.randint(0, 65535) for _ in range(125)]
        pool = [
            (lambda u: om.ReportSlaveIdRequest(unit=u), bytes([17]), bytes([17, 251]) + ident + b"\xff"),
            (lambda u: rrm.ReadHoldingRegistersRequest(a, 125, unit=u), struct.pack(">BHH", 3, a, 125), bytes([3, 250]) + W(big)),
            (lambda u: brm.ReadCoilsRequest(a, 2000, unit=u), struct.pack(">BHH", 1, a, 2000), bytes([1, 250]) + bytes(rng.randrange(256) for _ in range(250))),
        ]
    pick = rng.choice(pool)
    mk, req, rsp = pick[:3]
    via = pick[3] if len(pick) > 3 else None
    exc = bytes([req[0] | 0x80, rng.choice([1, 2, 3, 4, 6, 10, 11])])
    if via is not None and rng.random() < 0.5:
        mk = _ViaApi(mk, via)         # the same request through the documented client API (read_coils(), write_registers(), ...)
    return mk, req, rsp, exc


def other_reply(rng, fc):
    """a well-formed reply PDU of a different function code"""
    f2 = rng.choice([x for x in (1, 3, 5, 6, 16) if x != fc])
    if f2 in (1, 3):
        return bytes([f2, 2, 0x12, 0x34])
    return struct.pack(">BHH", f2, 1, 2)


class _ViaApi:
    """a request issued through the client's own method (ModbusClientMixin) instead of execute(<request object>)"""

    def __init__(self, mk, via):
        self.mk, self.via = mk, via

    def __call__(self, uid):
        return self.mk(uid)


class Transaction:
    """runs one client.execute() under a script; collects the observation record of ClientTrace"""

    def __init__(self, client_name, kind, client, dec, clock, line, rng):
        self.name, self.kind, self.c, self.dec, self.clock, self.line, self.rng = client_name, kind, client, dec, clock, line, rng

    def run(self, uid, script, connect_ok=True, exact=0):
        rng = self.rng
        tries = 0
        while True:
            mk, reqpdu, rsp, exc = request_pool(rng)
            if self.kind != "bin":
                break
            # 0x7B / 0x7D inside a binary frame is the C03/C06 known finding; keep it out of the client histories
            others = [bytes([1, 2, 0x12, 0x34]), bytes([3, 2, 0x12, 0x34])] + [struct.pack(">BHH", f2, 1, 2) for f2 in (5, 6, 16)]
            blob = b"".join(pyframe("rtu", 0, 0, uid, p) for p in [reqpdu, rsp, exc] + others) + pyframe("rtu", 0, 0, (uid % 200) + 1, rsp)
            if 0x7B not in blob and 0x7D not in blob:
                break
            tries += 1
            if tries % 40 == 0:
                uid = (uid % 200) + 7       # some unit ids put a brace into the CRC of a constant frame: move on
        req = mk(uid)
        fed = []
        late = []
        attempt = {"k": 0}
        line = self.line

        def frame(tid, u, pdu):
            return pyframe(self.kind, tid if self.kind == "tcp" else 0, 0, u, pdu)

        def on_write(data):
            k = attempt["k"]
            attempt["k"] += 1
            o = script[k] if k < len(script) else "nothing"
            tid = struct.unpack(">H", data[:2])[0] if self.kind == "tcp" else 0
            frames, out = [], {"rx": b""}

            def add(t, u, p):
                frames.append({"tid": t, "uid": u, "pdu": list(p)})
                out["rx"] += frame(t, u, p)
                out.setdefault("sizes", []).append(len(frame(t, u, p)))      # (a datagram peer sends one frame per datagram)
            stale_how = rng.choice(["tid", "fc"] if self.kind == "tcp" else ["uid", "fc"])

            def add_stale():
                if stale_how == "tid":
                    add((tid - rng.randint(1, 3)) % 65536, uid, rsp)
                elif stale_how == "uid":
                    add(0, (uid % 200) + 1, rsp)
                else:
                    add(tid, uid, other_reply(rng, reqpdu[0]))
            if o == "own":
                add(tid, uid, rsp)
            elif o == "ownExc":
                add(tid, uid, exc)
            if o in ("own", "ownExc") and not exact and self.name.startswith("serial") and rng.random() < (0.7 if reqpdu[0] in (22, 17) else 0.3) \
                    and len(out["rx"]) > 2:
                # the reply reaches the port in two bursts a few milliseconds apart: below the 10 ms the serial client polls at - a longer
                # gap inside a frame is a broken frame on a serial line (and is what the outcome "short" stands for)
                cut = rng.randint(1, len(out["rx"]) - 1)
                line.pending.append([self.clock.t + rng.choice([0.002, 0.004, 0.008]), out["rx"][cut:]])
                out["rx"] = out["rx"][:cut]
                out["sizes"] = [cut]
            elif o == "staleOwn":
                add_stale()
                add(tid, uid, rsp)
            elif o == "foreign":
                add_stale()
            elif o == "late":
                # the reply is on its way but arrives only after the client has given up waiting (delivered when execute() has returned)
                late.append((line.epoch, frame(tid, uid, rsp)))
            elif o == "short":
                full = frame(tid, uid, rsp)
                out["rx"] = full[:rng.randint(1, len(full) - 1)]
            elif o == "garbage":
                n = len(frame(tid, uid, rsp))
                out["rx"] = bytes(rng.randrange(256) for _ in range(rng.choice([1, 3, n, n + 4])))
            elif o == "oserror":
                if rng.random() < 0.5:
                    out["send_error"] = True
                else:
                    out["recv_error"] = True
            elif o == "close":
                out["close"] = True
            fed.append(frames)
            return out
        line.on_write = on_write
        line.connect_ok = connect_ok
        w0, r0 = len(line.writes), len(line.reads)
        pending0 = len(line.rx)              # bytes an earlier transaction left unread in the transport
        res = {"kind": "none", "pdu": [], "exc": ""}
        self.clock.ops = 0
        t_start = self.clock.t
        s0 = int(getattr(self.c, "state", 0))
        if hasattr(self.c, "_vstates"):
            del self.c._vstates[:]
        try:
            if POISONED:
                raise Watchdog("skipped after a hang")
            box = {}

            def call():
                try:
                    box["r"] = mk.via(self.c, uid) if isinstance(mk, _ViaApi) else self.c.execute(req)
                except BaseException as ex:       # noqa: BLE001 - handed to the caller's thread below
                    box["ex"] = ex
            import threading
            th = threading.Thread(target=call, daemon=True)
            th.start()
            th.join(HANG_S)
            if th.is_alive():
                # no virtual-time budget was exhausted (that raises Watchdog inside the call): the call spins or blocks without
                # consulting the clock.  It is recorded as a hang; nothing more is run in this process.
                POISONED.append(self.name)
                raise Watchdog("no return within %d s of real time" % HANG_S)
            if "ex" in box:
                raise box["ex"]
            r = box["r"]
            if r is None:
                res["kind"] = "none"
            elif isinstance(r, Exception):
                res["kind"], res["exc"] = "error", type(r).__name__
            elif isinstance(r, (bytes, str)):
                res["kind"], res["exc"] = "error", "bytes:" + str(r)[:20]
            else:
                res["kind"] = "reply"
                res["pdu"] = list(self.dec.raw.get(id(r), b""))
        except Watchdog:
            res["kind"], res["exc"] = "raised", "HANG"
        except ConnectionException as ex:
            res["kind"], res["exc"] = "raised", "ConnectionException"
        except Exception as ex:
            res["kind"], res["exc"] = "raised", type(ex).__name__
        self.dec.raw.clear()
        for ep, fr in late:
            # it arrives now - if the connection it was sent on still exists
            if ep == line.epoch and getattr(self.c, "socket", None) is not None:
                line.rx += fr
                line.sizes.append(len(fr))
        return {"uid": uid, "fc": reqpdu[0], "pdu": list(reqpdu), "script": list(script), "fed": fed,
                "writes": [list(w) for w in line.writes[w0:]], "reads": [dict(r, att=r.get("att", w0) - w0) for r in line.reads[r0:]], "result": res,
                "connfail": 0 if connect_ok else 1, "exact": exact, "pending_at_start": pending0, "vtime": round(self.clock.t - t_start, 3),
                "s0": s0, "states": list(getattr(self.c, "_vstates", [])), "how": 0 if res["kind"] == "raised" else 1,
                "normal_len": len(frame(0, uid, rsp))}     # length of the normal reply frame to this request (known-finding signature)
