"""C01 (PDU wire format) and C02 (inverse / purity): TLC computes the PDUs the standard prescribes for a
boundary domain (PduMC, exhaustive) and for random messages (PduGen); the real encoders/decoders are run
on them and every recorded call is validated by TLC (PduTrace)."""
import copy
import json
import random

import pdu_drv as P
from vcommon import (Report, model_check, model_check_expect_violation, validate_traces, seed, MachineryError, run_tlc, tlc_ok, parse_printed,
                     open_findings, scratch_dir, SPEC)
import os
import shutil


def mc_vectors(rep):
    cfg = open(os.path.join(SPEC, "PduMC.cfg")).read().replace("Export = FALSE", "Export = TRUE") + "INVARIANT ExportVec\n"
    res = model_check("PduMC", None, cfg_text=cfg, timeout=900)
    rep.add_mc(res, "PduMC.cfg")
    vec = parse_printed(res["out"], "VECTOR")
    if len(vec) != res["distinct"]:
        raise MachineryError("PduMC exported %d vectors for %d states" % (len(vec), res["distinct"]))
    return vec


def tlc_encode(msgs):
    """PduGen pass: [(id, dir, m)] -> {id: {bytes, rt, len}}"""
    wd = scratch_dir("pdugen")
    try:
        fn = os.path.join(wd, "msgs.json")
        with open(fn, "w") as f:
            json.dump({"traces": [{"id": i, "dir": d, "m": m} for i, d, m in msgs]}, f)
        res = run_tlc("PduGen", "PduGen.cfg", workers=4, timeout=900, env={"TRACE_FILE": fn})
        if not tlc_ok(res):
            raise MachineryError("PduGen failed:\n" + "\n".join(res["out"].splitlines()[-30:]))
        out = {v["id"]: v for v in parse_printed(res["out"], "VECTOR")}
        if len(out) != len(msgs):
            raise MachineryError("PduGen: %d vectors for %d messages" % (len(out), len(msgs)))
        bad = [v for v in out.values() if v["rt"] == 0]
        if bad:
            raise MachineryError("PduGen: the specification's own round trip fails for %s" % bad[:2])
        return out
    finally:
        shutil.rmtree(wd, ignore_errors=True)


def direction(m):
    return "req" if m["t"].endswith("Req") else "rsp"


def c01_trace(tid, m, d, tbytes, expressible):
    """two single-event traces: the real encode of the message, the real decode of the PDU TLC computed"""
    out = []
    if not expressible:
        return out
    e = {"op": "enc", "m": m, "bytes": [], "raised": ""}
    try:
        o = P.build(m)
        # the object must carry the field values it was constructed with (a constructor that replaces a legal value - 0, an empty
        # list - by a default sends a different message than the caller asked for)
        if not (m["t"] == "DevIdReq" and m.get("code") not in (1, 2, 3, 4)):     # (read code 0 is not a legal value: the library reads it as "not given")
            out.append({"id": tid + "c", "ev": [{"op": "ctor", "m": m, "got": P.project(o), "raised": ""}]})
        e["m"] = P.project(o)        # the field values the message object actually carries
        e["bytes"] = list(bytes([o.function_code]) + o.encode())
    except Exception as ex:
        e["raised"] = type(ex).__name__
    out.append({"id": tid + "e", "ev": [e]})
    e = {"op": "dec", "dir": d, "bytes": list(tbytes), "got": {"t": "none"}, "raised": ""}
    try:
        e["got"] = P.project(P.decode_real(d, bytes(tbytes)))
    except Exception as ex:
        e["raised"] = type(ex).__name__
    out.append({"id": tid + "d", "ev": [e]})
    return out


def c02_trace(tid, m, m2, d):
    """History of calls on real objects; all comparisons are relational (no TLA+ codec involved)."""
    ev = []
    try:
        o = P.build(m)
        b0 = P.project(o)
        by1 = bytes([o.function_code]) + o.encode()
        a1 = P.project(o)
        ev.append({"op": "enc2", "before": b0, "after": a1, "bytes": list(by1), "raised": ""})
        by2 = bytes([o.function_code]) + o.encode()
        ev.append({"op": "enc2", "before": a1, "after": P.project(o), "bytes": list(by2), "raised": ""})
        if hasattr(o, "get_response_pdu_size"):
            # what the transaction manager does between building a request and sending it: asking for the predicted reply size must
            # not change what the message encodes to
            a2 = P.project(o)
            o.get_response_pdu_size()
            by3 = bytes([o.function_code]) + o.encode()
            ev.append({"op": "enc2", "before": a2, "after": P.project(o), "bytes": list(by3), "raised": ""})
    except Exception as ex:
        ev.append({"op": "enc2", "before": {"t": "x"}, "after": {"t": "x"}, "bytes": [], "raised": type(ex).__name__})
        return {"id": tid, "ev": ev}
    # real decode of the real encoding
    e = {"op": "rt", "m": b0, "dir": d, "bytes": list(by1), "got": {"t": "none"}, "raised": ""}
    dec = None
    try:
        dec = P.decode_real(d, by1)
        e["got"] = P.project(dec)
    except Exception as ex:
        e["raised"] = type(ex).__name__
    ev.append(e)
    if dec is not None:
        e = {"op": "fp", "b1": list(by1), "b2": [], "raised": ""}
        try:
            e["b2"] = list(bytes([dec.function_code]) + dec.encode())
            # encoding a freshly decoded object twice
            b3 = list(bytes([dec.function_code]) + dec.encode())
            ev.append(e)
            ev.append({"op": "fp", "b1": e["b2"], "b2": b3, "raised": ""})
        except Exception as ex:
            e["raised"] = type(ex).__name__
            ev.append(e)
    # decode into a used object vs a fresh one
    if m2 is not None:
        try:
            by_m2 = P.encode_real(m2)
            used = P.decode_real(d, by1)      # an object that already went through one decode
            fresh = P.decode_real(d, by_m2)
            if used is not None and fresh is not None:
                used.decode(by_m2[1:])
                ev.append({"op": "dec2", "bytes": list(by_m2), "after": P.project(used), "fresh": P.project(fresh), "raised": ""})
                used.decode(by_m2[1:])     # and once more: decode must be idempotent on the same bytes
                ev.append({"op": "dec2", "bytes": list(by_m2), "after": P.project(used), "fresh": P.project(fresh), "raised": ""})
        except Exception as ex:
            ev.append({"op": "dec2", "bytes": [], "after": {"t": "x"}, "fresh": {"t": "x"}, "raised": type(ex).__name__})
    return {"id": tid, "ev": ev}


def field_sweeps(rng):
    """thorough: every 16-bit value of each field of the fixed-format PDUs (other fields random)."""
    out = []
    for tag, fields in (("ReadHoldingReq", ("addr", "qty")), ("WriteRegReq", ("val",)), ("MaskWriteReq", ("andm",)),
                        ("WriteRegsRsp", ("qty",)), ("FifoReq", ("addr",))):
        for f in fields:
            base = P.rand_message(rng, tag)
            for v in range(0, 65536):
                m = dict(base)
                m[f] = v
                out.append(m)
    return out


KNOWN_SIG = ("tags", "clauses", "ops")


def match_known(known, v, ev, tag):
    """a failure is a known finding only if TLC found that the observation equals the prediction of the
    named deviation (detail.explained_by) and that deviation is listed open, or the signature matches exactly"""
    expl = set(v.get("detail", {}).get("explained_by", []) or [])
    for fid, f in known.items():
        sig = f.get("signature", {})
        if sig.get("dev") and sig["dev"] in expl:
            return fid
        if not sig.get("dev") and tag in sig.get("tags", []) and set(v["clauses"]) <= set(sig.get("clauses", [])) \
                and ev["op"] in sig.get("ops", []) and ev.get("raised", "") in sig.get("raised", [ev.get("raised", "")]):
            return fid
    return None


def run(prop, tier):
    rng = random.Random(seed() * 7 + (1 if prop == "C01" else 2))
    rep = Report(prop, tier, "model_checking" if prop == "C02" else "exploration")
    vec = mc_vectors(rep)
    if prop == "C02":
        res = model_check("MsgObjectMC", "MsgObjectMC.cfg", workers=4, timeout=300)
        rep.add_mc(res, "MsgObjectMC.cfg")
        base = open(os.path.join(SPEC, "MsgObjectMC.cfg")).read()
        for dev in ("EncCountsCumulatively", "DecAppends"):
            bad, _ = model_check_expect_violation("MsgObjectMC", None, workers=4, cfg_text=base.replace("MDev = {}", 'MDev = {"%s"}' % dev))
            if not bad:
                raise MachineryError("MsgObjectMC with deviation %s satisfies every property: vacuous" % dev)
        rep.notes["model_deviations_rejected_by_tlc"] = ["EncCountsCumulatively", "DecAppends"]
    traces = []
    tagof = {}
    n_rand = 4000 if tier == "quick" else 60000
    rnd = [P.rand_message(rng) for _ in range(n_rand)]
    if prop == "C01":
        if tier != "quick":
            rnd += field_sweeps(rng)
        enc = tlc_encode([("r%d" % i, direction(m), m) for i, m in enumerate(rnd)])
        for i, v in enumerate(vec):
            tid = "v%d" % i
            for t in c01_trace(tid, v["m"], v["dir"], v["bytes"], v["ok"] == 1):
                traces.append(t)
                tagof[t["id"]] = v["m"]["t"]
        for i, m in enumerate(rnd):
            tid = "r%d" % i
            for t in c01_trace(tid, m, direction(m), enc[tid]["bytes"], enc[tid]["rt"] == 1):
                traces.append(t)
                tagof[t["id"]] = m["t"]
    else:
        msgs = [v["m"] for v in (vec if tier != "quick" else vec[::4]) if v["ok"] == 1] + rnd
        for i, m in enumerate(msgs):
            m2 = P.rand_message(rng, m["t"])
            if m["t"] in ("DiagReq", "DiagRsp"):
                m2 = dict(m, data=[(x + 1) % 65536 for x in m["data"]])
            if m["t"] == "Exception":      # the function code of an exception is fixed by the decoder, not by decode()
                m2 = dict(m, code=(m["code"] + 1) % 256)
            tid = "h%d" % i
            traces.append(c02_trace(tid, m, m2, direction(m)))
            tagof[tid] = m["t"]
    if prop == "C01":
        import repotests
        rd = repotests.record()     # encode()/decode() calls the repository's own tests made, recorded (harness/repotrace_plugin.py)
        for t in rd.get("pdu", []):
            traces.append(t)
            tagof[t["id"]] = t["tag"]
        repotests.note(rep, rd, "pdu")
    traces = [t for t in traces if t["ev"]]
    verdicts, st = validate_traces("PduTrace", "PduTrace.cfg", traces)
    rep.add_tv(st, len(traces), sum(len(t["ev"]) for t in traces))
    byid = {t["id"]: t for t in traces}
    known = {f["id"]: f for f in open_findings(prop)}
    ok = []
    for tid, v in verdicts.items():
        t = byid[tid]
        tag = tagof[tid]
        if v["status"] == "OK":
            ok.append(t)
            for e in t["ev"]:
                rep.distinct((tag, e["op"], len(e.get("bytes", e.get("b1", [])))))
        elif v["status"] == "UNJUDGED":
            rep.notes["unjudged"] = rep.notes.get("unjudged", 0) + 1
        else:
            ev = t["ev"][v["step"] - 1]
            fid = match_known(known, v, ev, tag)
            if fid:
                rep.known(fid)
            else:
                rep.violation("%s-%s" % (tag, "-".join(sorted(v["clauses"]))),
                              {"property": prop, "engine": "PduTrace", "tag": tag, "trace": t, "verdict": v})
    # self-test: corrupt one accepted trace
    base = next((t for t in ok if len(t["ev"]) >= (2 if prop == "C02" else 1) and t["ev"][0].get("bytes")), None)
    if base is None:
        raise MachineryError("self-test: no accepted trace")
    mut = copy.deepcopy(base)
    mut["id"] = "st"
    mut["ev"][0]["bytes"][-1] ^= 1
    if prop == "C02":
        mut["ev"][1]["bytes"] = mut["ev"][0]["bytes"][:-1] + [mut["ev"][0]["bytes"][-1] ^ 1]
    sv, _ = validate_traces("PduTrace", "PduTrace.cfg", [mut], shards=1)
    if sv["st"]["status"] != "FAIL":
        raise MachineryError("self-test: corrupted trace accepted")
    rep.notes["self_test"] = sv["st"]["clauses"]
    for t in ok[:2] + ok[-2:]:
        rep.sample({"id": t["id"], "tag": tagof[t["id"]], "events": [{k: (bytes(x).hex() if k in ("bytes", "b1", "b2") else x)
                                                                      for k, x in e.items()} for e in t["ev"][:2]]})
    rep.cov["rule"] = ("cases = recorded encode/decode calls on real message objects for (a) every message of the PduMC boundary domain "
                       "(exported by TLC with the PDU the standard prescribes) and (b) seeded random messages of every class; "
                       "distinct_nontrivial counts distinct (message type, call kind, PDU length) triples among accepted traces.")
    rep.cov["exhaustive"] = False
    rep.assumptions += ["TLC 1.8.0 and CommunityModules are correct",
                        "spec/ModbusPDU.tla transcribes the PDU layouts of Modbus Application Protocol v1.1b3 correctly "
                        "(self-consistency Decode(Encode(m)) = m is model-checked over the boundary domain)",
                        "messages are compared through the projection of documented public fields (harness/pdu_drv.project)"]
    return rep.finish()
