"""Framing engine driver (C03, C06, C07, C11): real framers behind a recording decoder proxy."""
import json
import os
import shutil

import pdu_drv as P
from vcommon import import_repo, run_tlc, tlc_ok, parse_printed, scratch_dir, MachineryError

import_repo()
from pymodbus.factory import ServerDecoder, ClientDecoder  # noqa: E402
from pymodbus.framer.socket_framer import ModbusSocketFramer  # noqa: E402
from pymodbus.framer.rtu_framer import ModbusRtuFramer  # noqa: E402
from pymodbus.framer.ascii_framer import ModbusAsciiFramer  # noqa: E402
from pymodbus.framer.binary_framer import ModbusBinaryFramer  # noqa: E402
from pymodbus.framer.tls_framer import ModbusTlsFramer  # noqa: E402

FRAMERS = {"tcp": ModbusSocketFramer, "rtu": ModbusRtuFramer, "ascii": ModbusAsciiFramer,
           "bin": ModbusBinaryFramer, "tls": ModbusTlsFramer}


class RecDecoder:
    """Delegates to the real decoder and remembers the raw PDU handed to it (DESIGN.md C07: the delivery is
    logged with the bytes the framer gave to the decoder, never with a re-encoding of the decoded object)."""

    def __init__(self, direction):
        self.real = ServerDecoder() if direction == "req" else ClientDecoder()
        self.last = None

    def decode(self, data):
        self.last = bytes(data)
        return self.real.decode(data)

    def lookupPduClass(self, fc):
        return self.real.lookupPduClass(fc)


class Receiver:
    def __init__(self, kind, direction):
        self.kind = kind
        self.dec = RecDecoder(direction)
        self.framer = FRAMERS[kind](self.dec, client=None)

    def feed(self, chunk, units, single):
        got = []

        def cb(msg):
            got.append({"uid": int(getattr(msg, "unit_id", 0) or 0), "tid": int(getattr(msg, "transaction_id", 0) or 0),
                        "pid": int(getattr(msg, "protocol_id", 0) or 0), "pdu": list(self.dec.last or b"")})
        rec = {"op": "feed", "chunk": list(chunk), "delivered": got, "raised": "", "buflen": 0}
        try:
            self.framer.processIncomingPacket(bytes(chunk), cb, units, single=single)
        except Exception as ex:
            rec["raised"] = type(ex).__name__
        try:
            rec["buflen"] = len(self.framer._buffer)
        except Exception:
            rec["buflen"] = 0
        return rec


def tlc_build(items):
    """FramingGen pass: items = [{id, kind, tid, pid, uid, pdu}] -> {id: bytes}"""
    if not items:
        return {}
    wd = scratch_dir("fgen")
    try:
        fn = os.path.join(wd, "items.json")
        with open(fn, "w") as f:
            json.dump({"traces": items}, f)
        res = run_tlc("FramingGen", "FramingGen.cfg", workers=8, timeout=900, env={"TRACE_FILE": fn})
        if not tlc_ok(res):
            raise MachineryError("FramingGen failed:\n" + "\n".join(res["out"].splitlines()[-30:]))
        out = {v["id"]: bytes(v["bytes"]) for v in parse_printed(res["out"], "VECTOR")}
        if len(out) != len(items):
            raise MachineryError("FramingGen: %d frames for %d items" % (len(out), len(items)))
        return out
    finally:
        shutil.rmtree(wd, ignore_errors=True)


REQ_TAGS = ["ReadCoilsReq", "ReadDiscreteReq", "ReadHoldingReq", "ReadInputReq", "WriteCoilReq", "WriteRegReq", "WriteCoilsReq",
            "WriteRegsReq", "MaskWriteReq", "ReadWriteReq", "ExcStatusReq", "EventCounterReq", "EventLogReq", "SlaveIdReq",
            "DiagReq", "ReadFileReq", "WriteFileReq", "FifoReq", "DevIdReq"]
RSP_TAGS = ["ReadCoilsRsp", "ReadDiscreteRsp", "ReadHoldingRsp", "ReadInputRsp", "ReadWriteRsp", "WriteCoilRsp", "WriteRegRsp",
            "WriteCoilsRsp", "WriteRegsRsp", "MaskWriteRsp", "Exception", "ExcStatusRsp", "EventCounterRsp", "EventLogRsp",
            "SlaveIdRsp", "DiagRsp", "ReadFileRsp", "WriteFileRsp", "FifoRsp", "DevIdRsp"]


def legal_message(rng, direction, small=False):
    """A message within the standard's limits (so that its frame is a valid frame of every framing)."""
    while True:
        tag = rng.choice(REQ_TAGS if direction == "req" else RSP_TAGS)
        m = P.rand_message(rng, tag)
        t = m["t"]
        if t in ("ReadCoilsRsp", "ReadDiscreteRsp") and len(m["bits"]) > (64 if small else 2000):
            continue
        if t in ("ReadHoldingRsp", "ReadInputRsp", "ReadWriteRsp") and not (1 <= len(m["regs"]) <= (8 if small else 125)):
            continue
        if t == "WriteCoilsReq" and len(m["bits"]) > (64 if small else 1968):
            continue
        if t == "WriteRegsReq" and len(m["regs"]) > (8 if small else 123):
            continue
        if t == "ReadWriteReq" and len(m["regs"]) > (8 if small else 121):
            continue
        if t in ("DiagReq", "DiagRsp"):
            if m["sub"] in (4, 21) or len(m["data"]) != 1:
                continue
        if t == "ReadFileReq" and (small and len(m["recs"]) > 2):
            continue
        if t == "DevIdRsp" and not m["objs"]:
            continue
        if t == "Exception":
            m["fc"] = rng.choice([1, 2, 3, 4, 5, 6, 15, 16, 22, 23])
        if small and t in ("EventLogRsp", "SlaveIdRsp") and len(m.get("events", m.get("id", []))) > 8:
            continue
        return m


# ---- input builder (not an oracle): frames for the drivers that need thousands of them cheaply --------------
# Traces built with these carry the stream bytes, and the TLA+ trace specs re-check every ghost frame
# against Framing!Build (clause GhostFrames), so a mistake here shows up as a machinery error.

def _crc16(data):
    crc = 0xFFFF
    for b in data:
        crc ^= b
        for _ in range(8):
            crc = (crc >> 1) ^ 0xA001 if crc & 1 else crc >> 1
    return bytes([crc & 0xFF, crc >> 8])


def pyframe(kind, tid, pid, uid, pdu):
    pdu = bytes(pdu)
    if kind == "tcp":
        return bytes([tid >> 8, tid & 255, pid >> 8, pid & 255, (len(pdu) + 1) >> 8, (len(pdu) + 1) & 255, uid]) + pdu
    body = bytes([uid]) + pdu
    if kind == "rtu":
        return body + _crc16(body)
    if kind == "ascii":
        lrc = (-sum(body)) & 0xFF
        return b":" + (body + bytes([lrc])).hex().upper().encode() + b"\r\n"
    if kind == "bin":
        raw = body + _crc16(body)
        esc = b"".join(bytes([x, x]) if x in (0x7B, 0x7D) else bytes([x]) for x in raw)
        return b"{" + esc + b"}"
    if kind == "tls":
        return pdu
    raise ValueError(kind)


def checksum_variants(kind, b):
    """structured damage of the integrity field of one frame (the two check bytes exchanged, zeroed, all ones, complemented, one of
    them zeroed); RTU: last two bytes, binary: the two bytes before '}', ASCII: the two LRC characters before CR LF"""
    if kind == "rtu" and len(b) >= 4:
        lo, hi = len(b) - 2, len(b)
    elif kind == "bin" and len(b) >= 6 and b[-1:] == b"}":
        lo, hi = len(b) - 3, len(b) - 1
    elif kind == "ascii" and len(b) >= 7:
        lo, hi = len(b) - 4, len(b) - 2
    else:
        return []
    c = b[lo:hi]
    if kind == "ascii":
        alts = [c[::-1], b"00", b"FF", b"0" + c[1:2], c[0:1] + b"0"]
    else:
        alts = [c[::-1], b"\x00\x00", b"\xff\xff", bytes([0, c[1]]), bytes([c[0], 0]), bytes([c[0] ^ 0xFF, c[1] ^ 0xFF])]
    return [b[:lo] + a + b[hi:] for a in alts if a != c]
