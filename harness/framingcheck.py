"""C03 / C06 / C07 / C11 on the framing engine: reference receivers model-checked by TLC (FramingMC); frames built by
TLC from the specification (FramingGen) are fed to the real framers under chunkings / faults / garbage; every call of
buildPacket / processIncomingPacket is recorded and validated by TLC (FramingTrace)."""
import copy
import itertools
import os
import random

import framing_drv as F
import pdu_drv as P
import pducheck
from vcommon import (Report, model_check, model_check_expect_violation, validate_traces, seed, MachineryError,
                     open_findings, SPEC)

MC_RUNS = {
    "C06": [("tcp", "valid"), ("rtu", "valid"), ("ascii", "valid")],
    "C07": [("tcp", "fault"), ("rtu", "fault"), ("ascii", "fault")],
    "C11": [("rtu", "garbage"), ("ascii", "garbage")],
    "C03": [("tcp", "valid"), ("rtu", "valid"), ("ascii", "valid")],
}
MC_DEVS = {
    "C06": [("tcp", "valid", "ResetOnIncomplete"), ("rtu", "valid", "OneFramePerCall")],
    "C07": [("rtu", "fault", "NoChecksum"), ("ascii", "fault", "NoChecksum")],
    "C11": [("ascii", "garbage", "KeepBadHead")],
    "C03": [("rtu", "valid", "ResetOnIncomplete")],
}


def mc(prop, tier, rep):
    base = open(os.path.join(SPEC, "FramingMC.cfg")).read()

    def cfg(kind, mode, dev=None, d="req"):
        c = base.replace('Kind = "tcp"', 'Kind = "%s"' % kind).replace('Mode = "valid"', 'Mode = "%s"' % mode)
        c = c.replace('Dir = "req"', 'Dir = "%s"' % d)
        if dev:
            c = c.replace("RDev = {}", 'RDev = {"%s"}' % dev)
        return c
    for kind, mode in MC_RUNS[prop]:
        for d in (("req",) if tier == "quick" else ("req", "rsp")):
            res = model_check("FramingMC", None, cfg_text=cfg(kind, mode, d=d), timeout=900)
            rep.add_mc(res, "FramingMC %s %s %s" % (kind, mode, d))
    rej = []
    for kind, mode, dev in MC_DEVS[prop]:
        bad, _ = model_check_expect_violation("FramingMC", None, cfg_text=cfg(kind, mode, dev))
        if not bad:
            raise MachineryError("FramingMC %s/%s with deviation %s satisfies every property: vacuous" % (kind, mode, dev))
        rej.append(dev)
    rep.notes["model_deviations_rejected_by_tlc"] = rej


class Pool:
    """frames built by TLC from the specification for random legal messages"""

    def __init__(self, rng, kinds, n_per, small=False, uids=(1,), tid_rng=None):
        self.rng = rng
        msgs = []
        for kind in kinds:
            for d in ("req", "rsp"):
                for k in range(n_per):
                    msgs.append((kind, d, F.legal_message(rng, d, small=small)))
        enc = pducheck.tlc_encode([("m%d" % i, d, m) for i, (kind, d, m) in enumerate(msgs)])
        items = []
        self.frames = {}
        for i, (kind, d, m) in enumerate(msgs):
            pdu = enc["m%d" % i]["bytes"]
            uid = rng.choice(list(uids))
            tid = rng.choice([0, 1, 255, 256, 65535, rng.randint(0, 65535)]) if kind == "tcp" else 0
            items.append({"id": "f%d" % i, "kind": kind, "tid": tid, "pid": 0, "uid": uid, "pdu": pdu})
        # frames whose checksum has a zero byte: LRC 00 on ASCII, a CRC with a 00 low or high byte on RTU / binary (found by search)
        extra = []
        for kind in kinds:
            if kind not in ("ascii", "rtu", "bin"):
                continue
            for d in ("req", "rsp"):
                found = 0
                for tries in range(3000):
                    a, v = rng.randint(0, 200), rng.randint(0, 65535)
                    pdu = [6, a >> 8, a & 255, v >> 8, v & 255]
                    body = bytes([1] + pdu)
                    if kind == "ascii":
                        ok = (sum(body) & 0xFF) == 0
                    else:
                        c = F._crc16(body)
                        ok = (c[0] == 0 or c[1] == 0) and 0x7B not in body + c and 0x7D not in body + c
                    if ok:
                        extra.append((kind, d, {"t": "WriteRegReq" if d == "req" else "WriteRegRsp", "addr": a, "val": v}, pdu))
                        found += 1
                        if found >= 2:
                            break
        for j, (kind, d, m, pdu) in enumerate(extra):
            items.append({"id": "z%d" % j, "kind": kind, "tid": 0, "pid": 0, "uid": 1, "pdu": pdu})
            msgs.append((kind, d, m))
        built = F.tlc_build(items)
        for it, (kind, d, m) in zip(items, msgs):
            fr = dict(it, bytes=built[it["id"]], dir=d, m=m)
            self.frames.setdefault((kind, d), []).append(fr)

    def pick(self, kind, d, maxlen=None):
        c = self.frames[(kind, d)]
        if maxlen:
            c = [f for f in c if len(f["bytes"]) <= maxlen] or c
        return self.rng.choice(c)


def mk_stream(frames, prefix=b"", units=(1,)):
    data = bytes(prefix)
    sent = []
    for f in frames:
        sent.append({"start": len(data) + 1, "len": len(f["bytes"]), "uid": f["uid"], "tid": f["tid"], "pid": f["pid"],
                     "pdu": list(f["pdu"]), "exp": 1 if (f.get("valid", True) and f["uid"] in units) else 0})
        data += f["bytes"]
    return data, sent


def run_stream(tid, mode, kind, d, data, sent, cuts, units, single, g=0):
    rx = F.Receiver(kind, d)
    calls = []
    pos = 0
    for c in list(cuts) + [len(data)]:
        calls.append(rx.feed(data[pos:c], list(units), single))
        pos = c
    return {"id": tid, "mode": mode, "kind": kind, "dir": d, "g": g, "sent": sent, "expframes": [x for x in sent if x["exp"] == 1],
            "calls": calls}


def compositions(n):
    for r in range(n):
        for cuts in itertools.combinations(range(1, n), r):
            yield cuts


def cut_sets(n, rng, tier, short):
    if n <= short:
        for c in compositions(n):
            yield c
        return
    yield ()
    yield tuple(range(1, n))                       # byte by byte
    for i in range(1, n):                          # every single cut
        yield (i,)
    k2 = 60 if tier == "quick" else 400
    for _ in range(k2):                            # two and three cuts, empty reads included (repeated cut = empty read)
        r = rng.choice([2, 3, 3, 5])
        yield tuple(sorted(rng.randint(0, n) for _ in range(r)))


# ------------------------------------------------------------------------------------------------------------
def gen_c06(tier, rng):
    traces = []
    kinds = ["tcp", "rtu", "ascii", "bin"]
    # (one frame in five is for a unit the receiver does not serve: it is skipped, and what follows it in the same read is still delivered)
    pool = Pool(rng, kinds, 12 if tier == "quick" else 60, small=True, uids=(1, 1, 1, 1, 9))
    k = 0
    short = 11 if tier == "quick" else 14
    for kind in kinds:
        for d in ("req", "rsp"):
            # shortest frames: every chunking
            fr = sorted([f for f in pool.frames[(kind, d)] if f["uid"] == 1], key=lambda f: len(f["bytes"]))
            for f in fr[:2]:
                data, sent = mk_stream([f])
                for cuts in cut_sets(len(data), rng, tier, short if kind != "ascii" else short):
                    traces.append(run_stream("s%d" % k, "c06", kind, d, data, sent, cuts, [1], False))
                    k += 1
            nstreams = 10 if tier == "quick" else 80
            for _ in range(nstreams):
                nf = rng.choice([1, 2, 2, 3])
                frames = [pool.pick(kind, d) for _ in range(nf)]
                single = rng.random() < 0.3
                data, sent = mk_stream(frames, units=range(256) if single else (1,))     # (`single`: every unit id is served)
                sets = list(cut_sets(len(data), rng, tier, 0))
                if len(sets) > (40 if tier == "quick" else 300):
                    sets = sets[:2] + rng.sample(sets[2:], (38 if tier == "quick" else 298))
                for cuts in sets:
                    traces.append(run_stream("s%d" % k, "c06", kind, d, data, sent, cuts, [1], single))
                    k += 1
    # long streams: many frames (also maximum-size ones), a read that ends inside a frame followed by large reads
    big = Pool(rng, kinds, 10 if tier == "quick" else 40, small=False)
    for kind in kinds:
        for d in ("req", "rsp"):
            for _ in range(6 if tier == "quick" else 60):
                frames = [big.pick(kind, d) if rng.random() < 0.3 else pool.pick(kind, d) for _ in range(rng.randint(8, 40))]
                data, sent = mk_stream(frames)
                n = len(data)
                plans = []
                first = rng.randint(1, min(n - 1, 30))
                plans.append((first,))                                           # a few bytes, then everything else in one read
                for size in (7, 64, 260, 261, 1024):
                    plans.append(tuple(range(first, n, size)))                   # fixed-size reads after an odd first read
                plans.append(tuple(sorted(set(rng.randint(1, n - 1) for _ in range(rng.randint(3, 25))))))
                for cuts in plans:
                    traces.append(run_stream("s%d" % k, "c06", kind, d, data, sent, cuts, [1], False))
                    k += 1
    return traces


def faults_of(fr, rng, tier):
    b = fr["bytes"]
    n = len(b)
    out = []
    bits = [(i, j) for i in range(n) for j in range(8)]
    if tier == "quick" and len(bits) > 160:
        bits = rng.sample(bits, 160)
    for i, j in bits:
        out.append(b[:i] + bytes([b[i] ^ (1 << j)]) + b[i + 1:])
    pairs = 40 if tier == "quick" else 600
    for _ in range(pairs):
        i, j = rng.randrange(n), rng.randrange(8)
        i2, j2 = rng.randrange(n), rng.randrange(8)
        x = bytearray(b)
        x[i] ^= 1 << j
        x[i2] ^= 1 << j2
        out.append(bytes(x))
    vals = [0x00, 0xFF, 0x3A, 0x0D, 0x0A, 0x7B, 0x7D, 0x30, 0x20, 0x2B, 0x2D, 0x5F, 0x78, 0x09] if tier == "quick" else list(range(256))
    pos = range(n) if tier != "quick" else rng.sample(range(n), min(n, 12))
    for i in pos:
        for v in vals:
            if v != b[i]:
                out.append(b[:i] + bytes([v]) + b[i + 1:])
    if fr["kind"] == "ascii":
        # every character of an ASCII frame replaced by the characters lenient hex parsers are known to tolerate
        for i in range(n):
            for v in (0x20, 0x09, 0x2B, 0x2D, 0x5F, 0x78, 0x58, 0x47, 0x67, 0x0B):
                if v != b[i]:
                    out.append(b[:i] + bytes([v]) + b[i + 1:])
    for i in range(n):
        out.append(b[:i] + b[i + 1:])                  # deletion
    for i in (range(n + 1) if tier != "quick" else rng.sample(range(n + 1), min(n + 1, 10))):
        for v in (0x00, 0xFF, 0x3A, 0x7D, 0x41, 0x20, 0x09, 0x0D, 0x0A, 0x0B, 0x0C, 0x30):
            out.append(b[:i] + bytes([v]) + b[i:])     # insertion (incl. the ASCII white space characters)
    for i in range(1, n):
        out.append(b[:i])                              # truncation
    out += checksum_faults(fr)
    return [x for x in out if x != b]


def checksum_faults(fr):
    """structured damage of the integrity field itself: the two check bytes exchanged, zeroed, all ones, one of them zeroed / all ones,
    complemented, incremented (RTU: last two bytes; binary: the two bytes before '}'; ASCII: the two LRC characters before CR LF)"""
    b, kind = fr["bytes"], fr["kind"]
    if kind == "rtu" and len(b) >= 4:
        lo, hi = len(b) - 2, len(b)
    elif kind == "bin" and len(b) >= 6 and b[-1:] == b"}":
        lo, hi = len(b) - 3, len(b) - 1
    elif kind == "ascii" and len(b) >= 7:
        lo, hi = len(b) - 4, len(b) - 2
    else:
        return []
    c = b[lo:hi]
    alts = [c[::-1], b"\x00\x00", b"\xff\xff", bytes([0, c[1]]), bytes([c[0], 0]), bytes([0xFF, c[1]]), bytes([c[0], 0xFF]),
            bytes([c[0] ^ 0xFF, c[1] ^ 0xFF]), bytes([(c[0] + 1) & 0xFF, c[1]]), bytes([c[0], (c[1] + 1) & 0xFF])]
    if kind == "ascii":
        alts = [c[::-1], b"00", b"FF", b"0" + c[1:2], c[0:1] + b"0", b"F" + c[1:2], c[0:1] + b"F"]
    return [b[:lo] + a + b[hi:] for a in alts if a != c]


def gen_c07(tier, rng):
    traces = []
    kinds = ["tcp", "rtu", "ascii", "bin"]
    pool = Pool(rng, kinds, 24 if tier == "quick" else 40, small=True)
    k = 0
    for kind in kinds:
        for d in ("req", "rsp"):
            frs = pool.frames[(kind, d)]
            chosen = rng.sample(frs, 3) if tier == "quick" else list(frs)
            if kind == "ascii":
                # frames whose LRC starts with the character '0': a lenient hex parser accepts ' 1' / '+1' in its place
                low = [f for f in frs if f["bytes"][-4:-3] == b"0" and f not in chosen]
                chosen += low[:2]
            if kind == "tcp":
                # fixed-length data-access PDUs are where a corrupted MBAP length is detectable: one frame per such function code
                import struct as _st
                fcs = (1, 2, 3, 4, 5, 6, 22) if d == "req" else (5, 6, 15, 16, 22)
                items = []
                for fc in fcs:
                    body = _st.pack(">HHH", rng.randint(0, 30), rng.randint(0, 65535), rng.randint(0, 65535)) if fc == 22 else \
                        _st.pack(">HH", rng.randint(0, 30), 0xFF00 if fc == 5 else rng.randint(1, 20))
                    items.append({"id": "fx%d" % fc, "kind": "tcp", "tid": rng.randint(0, 65535), "pid": 0, "uid": 1, "pdu": [fc] + list(body)})
                built = F.tlc_build(items)
                fixedframes = [dict(it, bytes=built[it["id"]], dir=d) for it in items]
                for f in fixedframes:
                    b = f["bytes"]
                    ln = b[4] * 256 + b[5]
                    for nl in (ln + 1, ln + 2, ln + 3, ln - 1, ln + 7):
                        if 0 <= nl <= 65535 and nl != ln:
                            bad = b[:4] + bytes([nl >> 8, nl & 255]) + b[6:]
                            for ctx in ("after", "both"):
                                pre = [pool.pick(kind, d, 40)] if ctx == "both" else []
                                post = [pool.pick(kind, d, 40)]
                                data, sent = mk_stream(pre + [dict(f, bytes=bad, valid=False)] + post)
                                traces.append(run_stream("x%d" % k, "c07", kind, d, data, sent, (), [1], False))
                                k += 1
            for f in chosen:
                # directed: every structured damage of the checksum field behind line noise longer than the frame
                for bad in checksum_faults(f):
                    noise = bytes(rng.choice([x for x in range(256) if x not in (0x7B, 0x7D, 0x3A, 0x0D, 0x0A)]) for _ in range(len(bad) + 7))
                    data, sent = mk_stream([dict(f, bytes=bad, valid=False), pool.pick(kind, d, 40)], prefix=noise)
                    traces.append(run_stream("x%d" % k, "c07", kind, d, data, sent, (), [1], False))
                    k += 1
                for bad in faults_of(f, rng, tier):
                    ctx = rng.choice(["alone", "before", "after", "both", "noise", "noise"])
                    pre = [pool.pick(kind, d, 40)] if ctx in ("before", "both") else []
                    post = [pool.pick(kind, d, 40)] if ctx in ("after", "both") else []
                    fb = dict(f, bytes=bad, valid=False)
                    # "noise": line noise in front of the damaged frame (shorter and longer than the frame, no delimiter characters)
                    noise = bytes(rng.choice([x for x in range(256) if x not in (0x7B, 0x7D, 0x3A, 0x0D, 0x0A)])
                                  for _ in range(rng.choice([1, 3, len(bad), len(bad) + 5, 40]))) if ctx == "noise" else b""
                    data, sent = mk_stream(pre + [fb] + post, prefix=noise)
                    n = len(data)
                    cuts = rng.choice([(), (), tuple(sorted(rng.randint(1, n - 1) for _ in range(rng.choice([1, 2])))) if n > 1 else ()])
                    traces.append(run_stream("x%d" % k, "c07", kind, d, data, sent, cuts, [1], rng.random() < 0.3))
                    k += 1
    return traces


def gen_c11(tier, rng):
    traces = []
    kinds = ["rtu", "ascii", "bin"]
    pool = Pool(rng, kinds, 8 if tier == "quick" else 30, small=True, uids=(1,))
    maxframe = {"rtu": 256, "ascii": 513, "bin": 514}
    k = 0
    ncase = 40 if tier == "quick" else 400
    for kind in kinds:
        for d in ("req", "rsp"):
            fixed = {"bin": [b"{}", b"{\x01}", b"xx{}yy", b"}{", b"{{", b"}", b"{\x01\x03}", b"{}{}", b"{}}", b"{\x01}}", b"{\x01\x06\x00\x01}}\x00",
                             b"{}}{"],
                     "ascii": [b":\r\n", b"::", b":0\r\n", b"\r\n:", b":\r", b":01\r\n", b":0103\r\n:", b"\n"],
                     "rtu": [b"\x00", b"\x01", b"\x01\x03", b"\x01\x10\x00", b"\xff\xff\xff", b"\x01\x18", b"\x01\x2b\x0e"]}[kind]
            for c in range(ncase):
                f0 = pool.pick(kind, d)
                gk = rng.choice(["random", "delims", "badsum", "trunc", "foreign", "longcount", "zeros", "ff"])
                b = f0["bytes"]
                if c < len(fixed):
                    gk = "fixed"
                    g = fixed[c]
                elif gk == "random":
                    g = bytes(rng.randrange(256) for _ in range(rng.choice([1, 2, 5, 17, 60])))
                elif gk == "delims":
                    g = bytes(rng.choice([0x3A, 0x0D, 0x0A, 0x7B, 0x7D, 0x30, 0x46]) for _ in range(rng.choice([1, 2, 3, 7])))
                elif gk == "badsum":
                    x = bytearray(b)
                    x[-3 if kind != "rtu" else -1] ^= 0x01
                    g = bytes(x)
                elif gk == "trunc":
                    g = b[:rng.randint(1, len(b) - 1)]
                elif gk == "foreign":
                    ff = dict(f0, uid=9)
                    built = F.tlc_build([{"id": "x", "kind": kind, "tid": 0, "pid": 0, "uid": 9, "pdu": list(f0["pdu"])}])
                    g = built["x"]
                elif gk == "longcount":
                    g = bytes([1, 16 if d == "req" else 3, 0, 1, 0, 1, 250][: (7 if d == "req" else 3)]) if kind == "rtu" else b[:3] + b"FFFF"
                elif gk == "zeros":
                    g = bytes(rng.choice([1, 3, 8]))
                else:
                    g = b"\xff" * rng.choice([1, 3, 8])
                need = len(g) + 2 * maxframe[kind] + maxframe[kind]
                frames = []
                tot = 0
                while tot < need:
                    f = pool.pick(kind, d, 60)
                    frames.append(f)
                    tot += len(f["bytes"])
                data, sent = mk_stream(frames, prefix=g)
                # chunking: the garbage in 1-2 reads, then one frame per read or several per read
                cuts = []
                if len(g) > 1 and rng.random() < 0.5:
                    cuts.append(rng.randint(1, len(g) - 1))
                per = rng.choice([1, 1, 2, 3])
                if rng.random() < 0.7:
                    cuts.append(len(g))
                for idx, s in enumerate(sent):
                    if (idx + 1) % per == 0:
                        cuts.append(s["start"] + s["len"] - 1)
                if c % 3 == 2 and kind == "ascii":
                    # reads that do not respect frame boundaries: fixed-size reads / random cuts through the valid traffic.
                    # Only on the ASCII framing, whose frames carry their own start and end marks: a byte-stream receiver of RTU (no
                    # inter-frame timing here) or of the brace-delimited binary framing finds a frame start again only at the
                    # beginning of a read, which is why C11 quantifies over "one per read and several per read"
                    if rng.random() < 0.5:
                        size = rng.choice([1, 3, 7, 16, 64])
                        cuts = [x for x in cuts if x <= len(g)] + list(range(len(g) + rng.randint(1, size), len(data), size))
                    else:
                        cuts = [x for x in cuts if x <= len(g)] + [rng.randint(len(g) + 1, len(data) - 1) for _ in range(rng.randint(5, 60))]
                cuts = sorted(set(c for c in cuts if 0 < c < len(data)))
                traces.append(run_stream("n%d" % k, "c11", kind, d, data, sent, cuts, [1], False, g=len(g)))
                traces[-1]["gkind"] = gk
                k += 1
    return traces


def gen_c03(tier, rng):
    traces = []
    kinds = ["tcp", "rtu", "ascii", "bin", "tls"]
    pool = Pool(rng, kinds, 25 if tier == "quick" else 150, small=False, uids=(1,))
    k = 0
    # (1) buildPacket of real message objects: framing around the object's own PDU
    items = []
    for kind in kinds:
        for d in ("req", "rsp"):
            for f in pool.frames[(kind, d)]:
                uid = rng.choice([0, 1, 0x7B, 0x7D, 0x3A, 0x0D, 0x0A, 247, 255, rng.randint(0, 255)])
                tid = rng.choice([0, 1, 255, 256, 65535, rng.randint(0, 65535)])
                pid = rng.choice([0, 0, 0, 1, 65535])
                calls = []
                rec = {"op": "build", "tid": tid if kind == "tcp" else 0, "pid": pid if kind == "tcp" else 0,
                       "uid": uid if kind != "tls" else 0, "pdu": [], "bytes": [], "raised": ""}
                try:
                    o = P.build(f["m"])
                    o.unit_id, o.transaction_id, o.protocol_id = uid, tid, pid
                    rec["pdu"] = list(bytes([o.function_code]) + o.encode())
                    fr = F.FRAMERS[kind](F.RecDecoder(d), client=None)
                    rec["bytes"] = list(fr.buildPacket(o))
                except Exception as ex:
                    rec["raised"] = type(ex).__name__
                traces.append({"id": "b%d" % k, "mode": "c03", "kind": kind, "dir": d, "g": 0, "sent": [], "expframes": [], "calls": [rec]})
                k += 1
                # (2) the specification's frame for (uid, tid, pdu), whole, to a fresh receiver
                items.append({"id": "r%d" % k, "kind": kind, "tid": rec["tid"], "pid": rec["pid"], "uid": rec["uid"],
                              "pdu": list(f["pdu"]), "dir": d})
                k += 1
    # sweeps: all unit ids, transaction ids, every data byte value
    base_req = [6, 0, 1, 0, 0]
    for kind in ("tcp", "rtu", "ascii", "bin"):
        for uid in range(256):
            items.append({"id": "u%d" % k, "kind": kind, "tid": 7 if kind == "tcp" else 0, "pid": 0, "uid": uid,
                          "pdu": [6, 0, 1, rng.randrange(256), rng.randrange(256)], "dir": "req"})
            k += 1
        for v in range(256):
            items.append({"id": "d%d" % k, "kind": kind, "tid": 9 if kind == "tcp" else 0, "pid": 0, "uid": 1,
                          "pdu": [6, v, (v * 7) % 256, v, v ^ 0x55], "dir": rng.choice(["req", "rsp"])})
            k += 1
    tids = range(0, 65536) if tier != "quick" else sorted(set([0, 1, 255, 256, 257, 32767, 32768, 65534, 65535] +
                                                                [rng.randint(0, 65535) for _ in range(300)]))
    for t in tids:
        items.append({"id": "t%d" % k, "kind": "tcp", "tid": t, "pid": rng.choice([0, 0, 1, 65535]), "uid": 1,
                      "pdu": [3, 0, 1, 0, 2], "dir": "req"})
        k += 1
    built = F.tlc_build([{x: it[x] for x in ("id", "kind", "tid", "pid", "uid", "pdu")} for it in items])
    for it in items:
        data = built[it["id"]]
        sent = [{"start": 1, "len": len(data), "uid": it["uid"], "tid": it["tid"], "pid": it["pid"], "pdu": it["pdu"], "exp": 1}]
        single = it["id"][0] == "u" and it["uid"] % 2 == 0
        traces.append(run_stream(it["id"], "c03", it["kind"], it["dir"], data, sent, (), [it["uid"]], single))
    # checksum helpers over arbitrary strings
    from pymodbus.utilities import computeCRC, computeLRC
    calls = []
    strs = [bytes([a]) for a in range(256)]
    strs += [bytes([a, b]) for a in range(0, 256, 5 if tier == "quick" else 1) for b in range(0, 256, 7 if tier == "quick" else 1)]
    strs += [bytes(rng.randrange(256) for _ in range(rng.randint(0, 256))) for _ in range(300 if tier == "quick" else 10000)]
    for s in strs:
        calls.append({"op": "crc", "data": list(s), "val": int(computeCRC(s))})
        calls.append({"op": "lrc", "data": list(s), "val": int(computeLRC(s))})
    for j in range(0, len(calls), 200):
        traces.append({"id": "k%d" % j, "mode": "c03", "kind": "rtu", "dir": "req", "g": 0, "sent": [], "expframes": [], "calls": calls[j:j + 200]})
    return traces


GEN = {"C03": gen_c03, "C06": gen_c06, "C07": gen_c07, "C11": gen_c11}
CLAUSES = {"C03": {"BuildADU", "CRC", "LRC", "NoRaise", "PrefixOK", "Complete", "DeliveredBeforeReceived"},
           "C06": {"NoRaise", "PrefixOK", "Complete", "DeliveredBeforeReceived"},
           "C07": {"Justified"},
           "C11": {"Resync", "Backlog", "Unexpected", "DeliveredBeforeReceived"}}


def has_brace(t):
    """observation for the binary-framer finding: does the interior of some frame on the wire (between its own
    '{' and '}') or some built frame's unit/PDU/CRC contain a 0x7B / 0x7D byte?"""
    data = b"".join(bytes(c["chunk"]) for c in t["calls"] if c["op"] == "feed")
    for s in t["sent"]:
        inner = data[s["start"]:s["start"] + s["len"] - 2]
        if 0x7B in inner or 0x7D in inner:
            return True
    for c in t["calls"]:
        if c["op"] == "build":
            inner = bytes(c["bytes"][1:-1])
            if 0x7B in inner or 0x7D in inner or 0x7B in c["pdu"] or 0x7D in c["pdu"] or c["uid"] in (0x7B, 0x7D):
                return True
    return False


def match_known(known, t, v):
    expl = set(v.get("detail", {}).get("explained_by", []) or [])
    for fid, f in known.items():
        sig = f.get("signature", {})
        if sig.get("kind") and sig["kind"] != t["kind"]:
            continue
        if sig.get("dev"):
            if sig["dev"] in expl:
                return fid
            continue
        if sig.get("needs_brace") and not (t["kind"] == "bin" and has_brace(t)):
            continue
        if sig.get("gkinds") and t.get("gkind") not in sig["gkinds"]:
            continue
        if sig.get("dir") and sig["dir"] != t["dir"]:
            continue
        if set(v["clauses"]) <= set(sig.get("clauses", [])):
            return fid
    return None


def run(prop, tier):
    rng = random.Random(seed() * 7 + int(prop[1:]))
    rep = Report(prop, tier, {"C03": "exploration", "C07": "fault_enumeration"}.get(prop, "model_checking"))
    mc(prop, tier, rep)
    traces = GEN[prop](tier, rng)
    if prop in ("C03", "C07"):
        import repotests
        rd = repotests.record()     # the repository's own framer tests, recorded: buildPacket calls (C03), deliveries (C07)
        grp = "build" if prop == "C03" else "framing"
        traces += rd.get(grp, [])
        repotests.note(rep, rd, grp)
    verdicts, st = validate_traces("FramingTrace", "FramingTrace.cfg", traces, timeout=3000)
    rep.add_tv(st, len(traces), sum(len(t["calls"]) for t in traces))
    byid = {t["id"]: t for t in traces}
    known = {f["id"]: f for f in open_findings(prop)}
    ok = []
    for tid, v in verdicts.items():
        t = byid[tid]
        if v["status"] == "OK":
            ok.append(t)
            nd = sum(len(c.get("delivered", [])) for c in t["calls"])
            rep.distinct((t["kind"], t["dir"], len(t["calls"]), nd, t["calls"][0]["op"], tuple(t["sent"][0]["pdu"][:2]) if t["sent"] else ()))
            continue
        cl = set(v["clauses"])
        fid = match_known(known, t, v)
        if fid:
            rep.known(fid)
        else:
            slim = dict(t)
            rep.violation("%s-%s-%s" % (t["kind"], t["dir"], "-".join(sorted(cl))),
                          {"property": prop, "engine": "FramingTrace", "tag": t["kind"] + "/" + t["dir"], "trace": slim, "verdict": v})
    if prop == "C11":
        # the same property through serving handlers (serial-style and stream handlers on serial framings)
        import servercheck
        stc = servercheck.gen_c11_server(tier, rng)
        sv, sst = validate_traces("ServerTrace", "ServerTrace.cfg", stc, timeout=3000)
        rep.add_tv(sst, len(stc), sum(len(t["ev"]) for t in stc))
        for t in stc:
            v = sv[t["id"]]
            if v["status"] == "FAIL" and "ServerResync" in v["clauses"]:
                rep.violation("handler-%s-%s-ServerResync" % (t["fe"], t["kind"]),
                              {"property": prop, "engine": "ServerTrace", "tag": t["fe"], "trace": t, "verdict": v})
            elif v["status"] == "OK":
                rep.distinct(("handler", t["fe"], t["kind"], t["g"], len(t["ev"])))
    # self-test of the binding: drop a delivery / forge a delivery / corrupt a built byte
    base = next((t for t in ok if any(c.get("delivered") for c in t["calls"])), None)
    muts = []
    if base is not None:
        m = copy.deepcopy(base)
        m["id"] = "st_forge"
        c = next(c for c in m["calls"] if c.get("delivered"))
        c["delivered"][0]["pdu"][-1] ^= 1
        muts.append(m)
        if prop in ("C03", "C06", "C11"):
            m2 = copy.deepcopy(base)
            m2["id"] = "st_drop"
            for c in m2["calls"]:
                if c["op"] == "feed":
                    c["delivered"] = []
            muts.append(m2)
    if not muts:
        raise MachineryError("self-test: no accepted trace with a delivery")
    sv, _ = validate_traces("FramingTrace", "FramingTrace.cfg", muts, shards=1)
    if any(x["status"] != "FAIL" for x in sv.values()):
        raise MachineryError("self-test: corrupted trace accepted: %s" % {k: x["status"] for k, x in sv.items()})
    rep.notes["self_test"] = {k: x["clauses"] for k, x in sv.items()}
    for t in ok[:2]:
        rep.sample({"id": t["id"], "kind": t["kind"], "dir": t["dir"], "mode": t["mode"],
                    "calls": [{"chunk": bytes(c.get("chunk", c.get("bytes", c.get("data", [])))).hex()[:80],
                               "delivered": [bytes(x["pdu"]).hex()[:40] for x in c.get("delivered", [])], "raised": c.get("raised", "")}
                              for c in t["calls"][:4]]})
    rep.cov["rule"] = ("cases = recorded calls of buildPacket / processIncomingPacket / computeCRC / computeLRC of the real framers; "
                       "frames are built by TLC from Framing!Build for random legal messages of every class; distinct_nontrivial counts "
                       "distinct (framing, direction, number of reads, number of deliveries, first call kind, first two PDU bytes) tuples "
                       "among accepted traces.")
    rep.assumptions += ["TLC 1.8.0 and CommunityModules are correct",
                        "spec/Framing.tla transcribes MBAP / RTU / ASCII / jamod-binary / TLS ADU layouts correctly; CRC-16 is bit-serial in TLA+",
                        "deliveries are observed through the callback plus the raw PDU the framer passed to its decoder (recording proxy)",
                        "no reference receiver is modelled for the binary framing (its traces are judged by the same formulas)"]
    return rep.finish()
