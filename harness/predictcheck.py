"""C14: predicted reply length = real length. Exhaustive over the quantity domain (bits 1..2000, registers 1..125, ...),
per-framing overheads and exception lengths, and the sizes the serial clients really ask of their transport."""
import copy
import random
import struct

import client_drv as C
import clientcheck
from vcommon import Report, validate_traces, model_check, seed, MachineryError, open_findings, import_repo

import_repo()
from pymodbus import bit_read_message as brm, bit_write_message as bwm, register_read_message as rrm  # noqa: E402
from pymodbus import register_write_message as rwm, diag_message as dg  # noqa: E402
from pymodbus.datastore import ModbusSlaveContext, ModbusSequentialDataBlock  # noqa: E402
from pymodbus.device import ModbusControlBlock  # noqa: E402


def full_ctx():
    return ModbusSlaveContext(di=ModbusSequentialDataBlock(0, [0] * 65536), co=ModbusSequentialDataBlock(0, [0] * 65536),
                              hr=ModbusSequentialDataBlock(0, [0] * 65536), ir=ModbusSequentialDataBlock(0, [0] * 65536), zero_mode=True)


def pdu_events():
    ctx = full_ctx()
    ev = []

    def one(mk):
        r = mk()
        req = bytes([r.function_code]) + r.encode()
        rec = {"op": "pdu", "req": list(req), "predicted": -1, "real": 0, "raised": ""}
        try:
            rec["predicted"] = int(mk().get_response_pdu_size())
            rsp = mk().execute(ctx)
            if getattr(rsp, "should_respond", True):
                rec["real"] = 1 + len(rsp.encode())
        except Exception as ex:
            rec["raised"] = type(ex).__name__
        ev.append(rec)
    for q in range(1, 2001):
        one(lambda: brm.ReadCoilsRequest(q % 7, q))
        one(lambda: brm.ReadDiscreteInputsRequest(3, q))
    for q in range(1, 126):
        one(lambda: rrm.ReadHoldingRegistersRequest(q, q))
        one(lambda: rrm.ReadInputRegistersRequest(0, q))
        for w in (1, 2, 121):
            one(lambda: rrm.ReadWriteMultipleRegistersRequest(read_address=1, read_count=q, write_address=5, write_registers=[7] * w))
    for q in range(1, 1969):
        one(lambda: bwm.WriteMultipleCoilsRequest(2, [True] * q))
    for q in range(1, 124):
        one(lambda: rwm.WriteMultipleRegistersRequest(2, [1] * q))
    for v in (0, 1, 0xFF00, 0xFFFF):
        one(lambda: bwm.WriteSingleCoilRequest(9, bool(v)))
        one(lambda: rwm.WriteSingleRegisterRequest(9, v))
    diag_classes = [c for c in vars(dg).values() if isinstance(c, type) and issubclass(c, dg.DiagnosticStatusRequest)
                    and hasattr(c, "sub_function_code")]
    for cls in sorted(diag_classes, key=lambda c: c.sub_function_code):
        ModbusControlBlock().ListenOnly = False
        if cls is dg.ReturnQueryDataRequest:
            for n in (1, 2, 5):
                one(lambda: cls([0x1234] * n))
        elif cls is dg.GetClearModbusPlusRequest:
            for op in (3, 4):
                one(lambda: cls(data=op))
        else:
            one(lambda: cls())
    ModbusControlBlock().ListenOnly = False
    return ev


def adu_events():
    ev = []
    import ssl
    for name, kind in (("serial-rtu", "rtu"), ("serial-ascii", "ascii"), ("serial-binary", "bin"), ("tcp", "tcp")):
        clock = C.VClock()
        line = C.Line(clock, kind)
        with C.Patches(clock, line):
            k, c, dec = C.make_client(name, {"retries": 0, "roe": 0, "roi": 0})
            tm = c.transaction
            for n in range(1, 254):
                size = 2 * n if kind == "ascii" else n     # execute() doubles the PDU size for ASCII before adding the overhead
                ev.append({"op": "adu", "kind": kind, "pdulen": n, "total": int(tm._calculate_response_length(size))})
            ev.append({"op": "exc", "kind": kind, "total": int(tm._calculate_exception_length())})
    try:
        import pymodbus.client.sync as CS
        c = CS.ModbusTlsClient("h", 802, sslctx=ssl.create_default_context())
        for n in (1, 5, 253):
            ev.append({"op": "adu", "kind": "tls", "pdulen": n, "total": int(c.transaction._calculate_response_length(n))})
        ev.append({"op": "exc", "kind": "tls", "total": int(c.transaction._calculate_exception_length())})
    except Exception as ex:
        ev.append({"op": "exc", "kind": "tls", "total": -1, "note": type(ex).__name__})
    return ev


def client_reads(tier, rng):
    traces = []
    n = 150 if tier == "quick" else 2000
    k = 0
    for name in ("serial-rtu", "serial-ascii", "serial-binary", "tcp+rtu"):
        for j in range(n):
            clock = C.VClock()
            kind0 = C.CLIENTS[name][0]
            line = C.Line(clock, kind0)
            cfg = {"retries": 0, "roe": 0, "roi": 0} if j % 6 else {"retries": 2, "roe": 1, "roi": 0}
            with C.Patches(clock, line):
                kind, client, dec = C.make_client(name, cfg)
                t = C.Transaction(name, kind, client, dec, clock, line, rng)
                uid = rng.choice([1, 2, 17, 247])
                hist = []
                if j % 3 == 2:
                    # history: the unit did not answer the previous call; the prediction for the next reply is the same
                    t.run(uid, ["nothing"])
                    hist = [["nothing"]]
                elif j % 3 == 1:
                    # history: the unit was silent twice, then answered normally: it is an ordinary unit again
                    t.run(uid, ["nothing"])
                    t.run(uid, ["nothing"])
                    t.run(uid, ["own"])
                    hist = [["nothing"], ["nothing"], ["own"]]
                if j % 6 == 0:
                    # an unanswered transmission inside the call, then an answered retransmission: the reads of the answered attempt are
                    # judged like a first attempt (the prediction is worked out once per call and must not drift between attempts)
                    x = t.run(uid, ["nothing"] * rng.randint(1, 2) + [rng.choice(["own", "ownExc"])], exact=1)
                else:
                    x = t.run(uid, [rng.choice(["own", "ownExc"])], exact=1)
                x["history"] = hist
                try:
                    client.close()
                except Exception:
                    pass
            traces.append({"id": "e%d" % k, "kind": kind0, "client": name, "cfg": cfg, "txns": [x]})
            k += 1
    return traces


def after_silence_exception(known, x):
    """the open finding `one read of the predicted normal size after a unit stayed silent`: exactly that observation, nothing wider -
    the previous call to the unit went unanswered, the reply is an exception reply, and the client issued ONE read asking for the
    length of the normal reply frame (so it waited for the difference)"""
    for fid, f in known.items():
        sig = f.get("signature", {})
        if sig.get("shape") != "one-read-of-normal-size-for-exception-after-silence":
            continue
        if x.get("history") == [["nothing"]] and x["script"] == ["ownExc"] and len(x["reads"]) == 1 and \
                x["reads"][0]["asked"] == x.get("normal_len") and x["reads"][0]["got"] < x["reads"][0]["asked"]:
            return fid
    return None


def run(prop, tier):
    rng = random.Random(seed() * 7 + 14)
    rep = Report(prop, tier, "exploration")
    ev = pdu_events() + adu_events()
    chunks = [{"id": "p%d" % j, "ev": ev[j:j + 1]} for j in range(len(ev))]
    verdicts, st = validate_traces("PredictTrace", "PredictTrace.cfg", chunks)
    rep.add_tv(st, len(chunks), len(ev))
    known = {f["id"]: f for f in open_findings(prop)}
    okc = 0
    for c in chunks:
        v = verdicts[c["id"]]
        e = c["ev"][0]
        if v["status"] == "OK":
            okc += 1
            rep.distinct((e["op"], e.get("kind", ""), e.get("req", [0])[0], e.get("predicted", e.get("total"))))
            continue
        fid = None
        for kid, f in known.items():
            sig = f.get("signature", {})
            if e["op"] == "pdu" and sig.get("req_prefix") and e["req"][:len(sig["req_prefix"])] == sig["req_prefix"] \
                    and set(v["clauses"]) <= set(sig.get("clauses", [])):
                fid = kid
        if fid:
            rep.known(fid)
        else:
            rep.violation("%s-%s" % (e["op"], "-".join(sorted(v["clauses"]))),
                          {"property": prop, "engine": "PredictTrace", "tag": e["op"], "trace": {"ev": [e], "id": c["id"]}, "verdict": v})
    ct = client_reads(tier, rng)
    cv, st2 = validate_traces("ClientTrace", "ClientTrace.cfg", ct)
    rep.add_tv(st2, len(ct), sum(len(x["reads"]) for t in ct for x in t["txns"]))
    ok = []
    for t in ct:
        v = cv[t["id"]]
        x = t["txns"][0]
        if v["status"] == "OK":
            ok.append(t)
            rep.distinct((t["client"], x["fc"], x["script"][0], tuple(r["asked"] for r in x["reads"])))
        elif "ReadsExactlyFrame" in v["clauses"] and x["result"]["kind"] == "reply" and after_silence_exception(known, x):
            rep.known(after_silence_exception(known, x))
        elif "ReadsExactlyFrame" in v["clauses"] or x["result"]["kind"] != "reply":
            rep.violation("%s-reads" % t["client"], {"property": prop, "engine": "ClientTrace", "tag": t["client"], "trace": t, "verdict": v})
    # self-test
    b = next((t for t in ok if len(t["txns"][0]["reads"]) >= 2), None)
    if b is None:
        raise MachineryError("self-test: no accepted client transaction")
    m = copy.deepcopy(b)
    m["id"] = "st"
    m["txns"][0]["reads"][-1]["got"] -= 1
    sv, _ = validate_traces("ClientTrace", "ClientTrace.cfg", [m], shards=1)
    m2 = {"id": "st2", "ev": [dict(ev[10], predicted=ev[10]["predicted"] + 1)]}
    sv2, _ = validate_traces("PredictTrace", "PredictTrace.cfg", [m2], shards=1)
    if sv["st"]["status"] != "FAIL" or sv2["st2"]["status"] != "FAIL":
        raise MachineryError("self-test: corrupted trace accepted")
    rep.notes["self_test"] = [sv["st"]["clauses"], sv2["st2"]["clauses"]]
    # the answered-retransmission clause: it must have been exercised, and a doubled read size on the retransmission must be rejected
    retried = [t for t in ok if len(t["txns"][0]["writes"]) >= 2 and t["txns"][0]["result"]["kind"] == "reply"]
    if len(retried) < 5:
        raise MachineryError("self-test: only %d accepted exact-read transactions with an answered retransmission" % len(retried))
    m3 = copy.deepcopy(retried[0])
    m3["id"] = "st3"
    m3["txns"][0]["reads"][-1]["asked"] *= 2
    sv3, _ = validate_traces("ClientTrace", "ClientTrace.cfg", [m3], shards=1)
    if sv3["st3"]["status"] != "FAIL" or "ReadsExactlyFrame" not in sv3["st3"]["clauses"]:
        raise MachineryError("self-test: a doubled read size on an answered retransmission is accepted")
    rep.notes["answered_retransmissions_judged"] = len(retried)
    rep.sample({"pdu_event": ev[5], "adu_event": ev[-3]})
    x = ok[0]["txns"][0]
    rep.sample({"client": ok[0]["client"], "script": x["script"], "reads": x["reads"], "frame_pdu": bytes(x["fed"][-1][0]["pdu"]).hex() if x["fed"] and x["fed"][-1] else ""})
    rep.cov["rule"] = ("cases = (a) get_response_pdu_size() of every request class that predicts, over the whole quantity domain (bits 1..2000, "
                       "registers 1..125, write quantities, read/write 1..125 x {1,2,121}, every diagnostic sub-function), compared by TLC with the "
                       "length of the response the data model prescribes and with the real executed response; (b) per-framing response and "
                       "exception lengths for PDU sizes 1..253; (c) the read sizes of real serial / RTU-over-TCP clients for normal and "
                       "exception replies. distinct_nontrivial counts distinct (kind, framing/function, size) tuples.")
    rep.cov["exhaustive"] = True
    rep.assumptions += ["TLC 1.8.0 and CommunityModules are correct", "scripted transport and virtual clock for the client part (DESIGN.md 2.5)"]
    return rep.finish()
