"""Driver for the data-model engine (C04, C05): builds real pymodbus datastores from a layout
descriptor, executes request PDUs through the real decoder/execute path (directly or through a
server front-end's execute wrapper) and records, per step, the response bytes and the cells that
changed.  The recorded traces are judged by spec/DataModelTrace.tla, not here.
"""
import random
import struct

from vcommon import import_repo

import_repo()
from pymodbus.datastore import (ModbusSequentialDataBlock, ModbusSparseDataBlock,  # noqa: E402
                                ModbusSlaveContext, ModbusServerContext)
from pymodbus.factory import ServerDecoder  # noqa: E402

TABLES = ("c", "d", "h", "i")
KW = {"c": "co", "d": "di", "h": "hr", "i": "ir"}


class _Boom(Exception):
    pass


def _failing(cls):
    class Failing(cls):
        def validate(self, *a, **k):
            raise _Boom("datastore failure")

        def getValues(self, *a, **k):
            raise _Boom("datastore failure")

        def setValues(self, *a, **k):
            raise _Boom("datastore failure")
    return Failing


def build_block(jb, bits, shared=None):
    """`shared` (a dict kept per context / server): sequential blocks with equal initial contents are constructed from the SAME Python
    list object, as an application does that writes `init = [0] * 100` once and hands it to several blocks; a block owns its cells
    from then on (the constructor is documented to take start values, not storage)"""
    ov = {a: v for a, v in jb["ov"]}
    conv = (lambda v: bool(v)) if bits else (lambda v: int(v))
    if jb["kind"] == "seq":
        vals = [conv(ov.get(a, jb["def"])) for a in range(jb["start"], jb["start"] + jb["size"])]
        if shared is not None:
            vals = shared.setdefault((bits, tuple(vals)), vals)
        cls = _failing(ModbusSequentialDataBlock) if jb["fail"] else ModbusSequentialDataBlock
        return cls(jb["start"], vals)
    # the dictionary is deliberately built in a scrambled (deterministic) key order: nothing may depend on insertion order
    vals = {a: conv(ov.get(a, jb["def"])) for a in sorted(jb["keys"], key=lambda k: ((k * 7919 + 13) % 1009, k))}
    cls = _failing(ModbusSparseDataBlock) if jb["fail"] else ModbusSparseDataBlock
    return cls(vals)


def build_context(cfg, shared=None):
    """cfg = {zero:0/1, map:{c,d,h,i -> block id}, blocks:{id -> block json}, omit:[tables left to the context's own default]}
    -> (slave context, {id: block}).  A table listed in `omit` is not passed to ModbusSlaveContext at all: the context must then
    provide its documented default (a private, fully populated, zeroed sequential block), which is what the model cfg describes."""
    blocks = {}
    omit = set(cfg.get("omit", []))
    if shared is None:
        shared = {}
    for t in TABLES:
        bid = cfg["map"][t]
        if t in omit:
            continue
        if bid not in blocks:
            blocks[bid] = build_block(cfg["blocks"][bid], bits=t in ("c", "d"), shared=shared)
    kw = {KW[t]: blocks[cfg["map"][t]] for t in TABLES if t not in omit}
    ctx = ModbusSlaveContext(zero_mode=bool(cfg["zero"]), **kw)
    for t in omit:
        blocks[cfg["map"][t]] = ctx.store[t]          # observe the block the context created itself
    return ctx, blocks


def dump(blocks):
    """Public iteration of each block: {id: {addr: int value}}"""
    out = {}
    for bid, b in blocks.items():
        out[bid] = {int(a): int(v) for a, v in b}
    return out


def diff(before, after):
    chg, ext = [], 0
    for bid in before:
        b, a = before[bid], after[bid]
        if b.keys() != a.keys():
            ext = 1
        for addr in a:
            if addr in b and a[addr] != b[addr]:
                chg.append([bid, addr, a[addr]])
    return chg, ext


class DirectPath:
    """ServerDecoder().decode(pdu).execute(context) -- the bare decoded-request execute path."""
    name = "direct"

    def __init__(self, ctx):
        self.ctx = ctx
        self.decoder = ServerDecoder()

    def run(self, pdu):
        req = self.decoder.decode(pdu)
        if req is None:
            raise ValueError("decoder returned None")
        rsp = req.execute(self.ctx)
        return bytes([rsp.function_code]) + rsp.encode()


class SyncHandlerPath:
    """The execute wrapper of the synchronous server's request handler (maps datastore failure to 04)."""
    name = "sync"

    def __init__(self, ctx):
        from pymodbus.server.sync import ModbusBaseRequestHandler

        class Stub:
            pass
        srv = Stub()
        srv.context = ModbusServerContext(slaves=ctx, single=True)
        srv.broadcast_enable = False
        srv.ignore_missing_slaves = False
        self.sent = []
        outer = self

        class H(ModbusBaseRequestHandler):
            def __init__(self):
                self.server = srv

            def send(self, message):
                outer.sent.append(message)
        self.h = H()
        self.decoder = ServerDecoder()

    def run(self, pdu):
        req = self.decoder.decode(pdu)
        if req is None:
            raise ValueError("decoder returned None")
        self.sent.clear()
        self.h.execute(req)
        if len(self.sent) != 1:
            raise ValueError("front-end sent %d responses" % len(self.sent))
        rsp = self.sent[0]
        return bytes([rsp.function_code]) + rsp.encode()


PATHS = {"direct": DirectPath, "sync": SyncHandlerPath}


def run_history(tid, cfg, pdus, path="direct", pre=()):
    """Execute pdus in order on a fresh context; `pre` = PDUs executed first, unrecorded (state injection)."""
    ctx, blocks = build_context(cfg)
    p = PATHS[path](ctx)
    for pdu in pre:
        p.run(bytes(pdu))
    ev = []
    before = dump(blocks)
    for pdu in pdus:
        rec = {"req": list(pdu), "rsp": [], "raised": "", "chg": [], "ext": 0}
        try:
            rec["rsp"] = list(p.run(bytes(pdu)))
        except Exception as ex:  # recorded as an observation, judged by the spec
            rec["raised"] = type(ex).__name__
        after = dump(blocks)
        rec["chg"], rec["ext"] = diff(before, after)
        before = after
        ev.append(rec)
    return {"id": tid, "cfg": cfg, "path": path, "ev": ev}


def cfg_with_state(cfg, state_blocks):
    """Return a copy of cfg whose blocks carry the explicit cell values of a model state (state injection)."""
    c = {"zero": cfg["zero"], "map": dict(cfg["map"]), "blocks": {}}
    for bid, b in cfg["blocks"].items():
        nb = dict(b)
        nb["ov"] = [[int(a), int(v)] for a, v in state_blocks.get(bid, {}).items()]
        c["blocks"][bid] = nb
    return c


# ---- PDU builders (plain struct packing of the standard's layouts; inputs, not oracles) ----------

def pdu_read(fc, addr, qty):
    return struct.pack(">BHH", fc, addr, qty)


def pdu_w1(fc, addr, word):
    return struct.pack(">BHH", fc, addr, word)


def pdu_wn(fc, addr, qty, bc, data):
    return struct.pack(">BHHB", fc, addr, qty, bc) + bytes(data)


def pdu_mask(addr, a, o):
    return struct.pack(">BHHH", 22, addr, a, o)


def pdu_rw(raddr, rqty, waddr, wqty, bc, data):
    return struct.pack(">BHHHHB", 23, raddr, rqty, waddr, wqty, bc) + bytes(data)


def from_model_req(r):
    """abstract request record exported by TLC (DataModelMC!Reqs) -> PDU bytes"""
    k = r["k"]
    if k == "read":
        return pdu_read(r["fc"], r["addr"], r["qty"])
    if k == "w1":
        return pdu_w1(r["fc"], r["addr"], r["word"])
    if k == "wn":
        return pdu_wn(r["fc"], r["addr"], r["qty"], r["bc"], r["data"])
    if k == "mask":
        return pdu_mask(r["addr"], r["andm"], r["orm"])
    if k == "rw":
        return pdu_rw(r["raddr"], r["rqty"], r["waddr"], r["wqty"], r["bc"], r["data"])
    if k == "unknown":
        return bytes([r["fc"]])
    raise ValueError(k)


def model_ctx_to_cfg(c):
    """context exported by TLC (ToJson of DataModelMC!ctx) -> layout cfg with explicit values"""
    blocks = {}
    for bid, b in c["blocks"].items():
        ov = b["ov"]
        if isinstance(ov, dict):
            pairs = [[int(a), int(v)] for a, v in ov.items()]
        else:   # a function with domain 1..n is printed as a JSON array
            pairs = [[i + 1, int(v)] for i, v in enumerate(ov)]
        nb = {"kind": b["kind"], "def": b["def"], "ov": pairs, "fail": 1 if b["fail"] else 0}
        if b["kind"] == "seq":
            nb["start"], nb["size"] = b["start"], b["size"]
        else:
            nb["keys"] = sorted(b["keys"])
        blocks[bid] = nb
    return {"zero": 1 if c["zero"] else 0, "map": c["map"], "blocks": blocks}


# ---- layouts for the real-size drivers -------------------------------------------------------------

def seq_block(start, size, default=0, fail=0):
    return {"kind": "seq", "start": start, "size": size, "def": default, "ov": [], "fail": fail}


def sparse_block(keys, default=0, fail=0):
    return {"kind": "sparse", "keys": sorted(keys), "def": default, "ov": [], "fail": fail}


def layout(zero, bc, bd, bh, bi, shared=False):
    if shared:
        return {"zero": zero, "map": {"c": "bb", "d": "bb", "h": "br", "i": "br"}, "blocks": {"bb": bc, "br": bh}}
    return {"zero": zero, "map": {"c": "bc", "d": "bd", "h": "bh", "i": "bi"},
            "blocks": {"bc": bc, "bd": bd, "bh": bh, "bi": bi}}


def real_layouts(rng):
    """A family of layouts at realistic sizes, including block boundaries near 0 and 65535."""
    L = []
    for zero in (0, 1):
        L.append(layout(zero, seq_block(0, 2100), seq_block(0, 2100, 1), seq_block(0, 300), seq_block(0, 300, 7)))
        L.append(layout(zero, seq_block(10, 2050), seq_block(1, 64), seq_block(100, 130), seq_block(1, 125, 3)))
        L.append(layout(zero, seq_block(63500, 2036), seq_block(65530, 6), seq_block(65400, 136), seq_block(65535, 1)))
        ks = set(range(5, 40)) | set(range(50, 60)) | {100, 102, 103, 104, 65535}
        L.append(layout(zero, sparse_block(ks), sparse_block(ks, 1), sparse_block(ks), sparse_block(ks, 9)))
        L.append(layout(zero, seq_block(0, 2500), None, seq_block(0, 400), None, shared=True))
        L.append(layout(zero, seq_block(0, 65536), seq_block(0, 100), seq_block(0, 65536), seq_block(0, 100)))
        # tables left to the context's default (ModbusSequentialDataBlock.create(): 65536 zeroed cells, one block per table)
        d1 = layout(zero, seq_block(0, 65536), seq_block(0, 65536), seq_block(0, 65536), seq_block(0, 65536))
        d1["omit"] = ["c", "d", "h", "i"]
        L.append(d1)
        d2 = layout(zero, seq_block(0, 300), seq_block(0, 65536), seq_block(5, 200), seq_block(0, 65536))
        d2["omit"] = ["d", "i"]
        L.append(d2)
    return L


def cells_of(b):
    if b["kind"] == "seq":
        return b["start"], b["start"] + b["size"] - 1
    return min(b["keys"]), max(b["keys"])


def boundary_addrs(cfg, table, rng, count=1):
    """PDU addresses around the boundaries of the block behind `table` (start-1, start, end-count+1, end, ...)"""
    b = cfg["blocks"][cfg["map"][table]]
    lo, hi = cells_of(b)
    off = 0 if cfg["zero"] else 1
    cand = {lo - 1, lo, lo + 1, hi - count, hi - count + 1, hi - count + 2, hi - 1, hi, hi + 1, 0, 65535, 65535 - count + 1}
    if b["kind"] == "sparse":
        ks = sorted(b["keys"])
        for k0, k1 in zip(ks, ks[1:]):
            if k1 != k0 + 1:
                cand |= {k0, k0 + 1, k1 - 1, k1, k0 - count + 1, k0 - count + 2}
    cand |= {rng.randint(lo, hi) for _ in range(3)}
    return sorted({a - off for a in cand if 0 <= a - off <= 65535})
