"""C04 (register-file semantics) and C05 (exceptions, nothing changes): model checking of
spec/DataModelMC + replay of the TLC state graph into the real code + real-size histories, all
judged by TLC through spec/DataModelTrace.tla."""
import json
import random

import dm
from vcommon import (Report, model_check, model_check_expect_violation, parse_printed, validate_traces, seed, MachineryError,
                     run_tlc, tlc_ok, open_findings)

C04_CLAUSES = {"Response", "Store", "Frame", "Extent"}
C05_CLAUSES = {"ExcCode", "ExcNoChange"}
# NoRaise belongs to whichever side the expected outcome is on (detail.expexc)


def owner_of(v):
    cl = set(v["clauses"])
    if cl & C05_CLAUSES or ("NoRaise" in cl and v["detail"].get("expexc") == 1):
        return "C05"
    return "C04"


def mc_and_export(tier, rep):
    cfgname = "DataModelMC_quick.cfg" if tier == "quick" else "DataModelMC_base.cfg"
    with open(dm.__file__.replace("harness/dm.py", "spec/" + cfgname)) as f:
        cfg_text = f.read().replace("ExportStates = FALSE", "ExportStates = TRUE") + "INVARIANT ExportState\n"
    res = model_check("DataModelMC_base", None, cfg_text=cfg_text, timeout=3000)
    rep.add_mc(res, cfgname)
    states = []
    reqs = None
    for line in res["out"].splitlines():
        if line.startswith('<<"STATE", '):
            s = line[len('<<"STATE", '):-2]
            states.append(json.loads(json.loads(s)))
        elif line.startswith('<<"REQS", '):
            s = line[len('<<"REQS", '):-2]
            reqs = json.loads(json.loads(s))
    if reqs is None or len(states) != res["distinct"]:
        raise MachineryError("state export incomplete: %d states printed, %d distinct" % (len(states), res["distinct"]))
    # non-vacuity: each named deviation of the model must be caught by the properties TLC just verified
    caught = {}
    base = open(dm.__file__.replace("harness/dm.py", "spec/DataModelMC_quick.cfg")).read()
    for dev in ("MaskWriteOrNotMasked", "CoilAnyWordIsOff", "RWWritesBeforeReadCheck", "RWReadsBeforeWrite"):
        bad, r2 = model_check_expect_violation("DataModelMC_base", None, cfg_text=base.replace("Dev = {}", 'Dev = {"%s"}' % dev))
        if not bad:
            raise MachineryError("model with deviation %s satisfies every property: the properties are vacuous" % dev)
        caught[dev] = True
    rep.notes["model_deviations_rejected_by_tlc"] = sorted(caught)
    return states, reqs


def gen_graph_traces(states, reqs, tier, rng, want_valid):
    """(state, request) edges of the TLC graph, replayed by state injection; plus covering walks."""
    traces = []
    nstates = 250 if tier == "quick" else 1500
    per = 120 if tier == "quick" else 200
    pick = states if len(states) <= nstates else rng.sample(states, nstates)
    k = 0
    for s in pick:
        cfg = dm.model_ctx_to_cfg(s)
        path = "sync" if any(b["fail"] for b in cfg["blocks"].values()) else ("direct" if k % 3 else "sync")
        rs = rng.sample(reqs, per)
        # one trace per edge would cost a JVM state each; a trace of independent edges from the same
        # injected state is not a history, so each edge is its own single-event trace
        for r in rs:
            traces.append(dm.run_history("g%d" % k, cfg, [dm.from_model_req(r)], path=path))
            k += 1
    # every request of the alphabet on every initial layout
    inits = [s for s in states if all(all(v == b["def"] for v in (b["ov"].values() if isinstance(b["ov"], dict) else b["ov"]))
                                      for b in s["blocks"].values())]
    for s in inits:
        cfg = dm.model_ctx_to_cfg(s)
        path = "sync" if any(b["fail"] for b in cfg["blocks"].values()) else "direct"
        for r in reqs:
            traces.append(dm.run_history("a%d" % k, cfg, [dm.from_model_req(r)], path=path))
            k += 1
        # covering walks without reset
        for w in range(20 if tier == "quick" else 200):
            walk = [dm.from_model_req(rng.choice(reqs)) for _ in range(40)]
            traces.append(dm.run_history("w%d" % k, cfg, walk, path=path))
            k += 1
    return traces


def rand_valid_req(cfg, rng):
    """A request that is valid for the layout (C04 histories), at real sizes."""
    fc = rng.choice([1, 2, 3, 4, 5, 6, 15, 16, 22, 23, 1, 3, 15, 16])
    t = {1: "c", 2: "d", 3: "h", 4: "i", 5: "c", 6: "h", 15: "c", 16: "h", 22: "h", 23: "h"}[fc]
    b = cfg["blocks"][cfg["map"][t]]
    off = 0 if cfg["zero"] else 1
    lo, hi = dm.cells_of(b)

    def span(maxq):
        if b["kind"] == "sparse":
            ks = sorted(b["keys"])
            a = rng.choice(ks)
            n = 1
            while a + n in b["keys"] and n < maxq:
                n += 1
            q = rng.randint(1, n)
        else:
            q = rng.choice([1, 2, 7, 8, 9, 16, maxq - 1, maxq, rng.randint(1, maxq)])
            q = max(1, min(q, hi - lo + 1, maxq))
            a = rng.choice([lo, hi - q + 1, rng.randint(lo, hi - q + 1)])
        a -= off
        if a < 0 or a > 65535:
            return None
        return a, q
    bits = lambda n: [rng.randint(0, 255) for _ in range((n + 7) // 8)]
    words = lambda n: [x for _ in range(n) for x in divmod(rng.choice([0, 1, 0xFFFF, 0x8000, rng.randint(0, 65535)]), 256)]
    if fc in (1, 2):
        s = span(2000)
        return s and dm.pdu_read(fc, *s)
    if fc in (3, 4):
        s = span(125)
        return s and dm.pdu_read(fc, *s)
    if fc == 5:
        s = span(1)
        return s and dm.pdu_w1(5, s[0], rng.choice([0, 0xFF00]))
    if fc == 6:
        s = span(1)
        return s and dm.pdu_w1(6, s[0], rng.choice([0, 1, 0xFFFF, rng.randint(0, 65535)]))
    if fc == 15:
        s = span(1968)
        return s and dm.pdu_wn(15, s[0], s[1], (s[1] + 7) // 8, bits(s[1]))
    if fc == 16:
        s = span(123)
        return s and dm.pdu_wn(16, s[0], s[1], 2 * s[1], words(s[1]))
    if fc == 22:
        s = span(1)
        return s and dm.pdu_mask(s[0], rng.choice([0, 0xFFFF, 0xF2, rng.randint(0, 65535)]),
                                 rng.choice([0, 0xFFFF, 0x25, rng.randint(0, 65535)]))
    s, w = span(125), span(121)
    return s and w and dm.pdu_rw(s[0], s[1], w[0], w[1], 2 * w[1], words(w[1]))


def rand_invalid_req(cfg, rng):
    """Requests around every limit / boundary / inconsistency (C05), at real sizes."""
    kind = rng.choice(["qty", "addr", "bc", "coil", "unknown", "rwpart"])
    fc = rng.choice([1, 2, 3, 4, 15, 16, 23])
    lim = {1: 2000, 2: 2000, 3: 125, 4: 125, 15: 1968, 16: 123}
    t = {1: "c", 2: "d", 3: "h", 4: "i", 5: "c", 6: "h", 15: "c", 16: "h", 22: "h", 23: "h"}
    need = lambda fc, q: (q + 7) // 8 if fc == 15 else 2 * q
    data = lambda n: [rng.choice([0, 255, 0x55, rng.randint(0, 255)]) for _ in range(n)]
    if kind == "unknown":
        fc = rng.choice([9, 10, 13, 14, 18, 19] + list(range(25, 43)) + list(range(44, 128)))
        return bytes([fc]) + bytes(data(rng.choice([0, 0, 1, 4])))
    if kind == "coil":
        a = rng.choice(dm.boundary_addrs(cfg, "c", rng))
        return dm.pdu_w1(5, a, rng.choice([1, 0xFF, 0x00FF, 0xFF01, 0xFEFF, 0xFFFF, 0x0100, 0x8000, rng.randint(0, 65535)]))
    if kind == "qty":
        if fc == 23:
            rq = rng.choice([0, 1, 124, 125, 126, 0x7FFF, 0xFFFF])
            wq = rng.choice([0, 1, 120, 121, 122, 127])
            ra = rng.choice(dm.boundary_addrs(cfg, "h", rng, max(1, min(rq, 125))))
            wa = rng.choice(dm.boundary_addrs(cfg, "h", rng, max(1, min(wq, 121))))
            return dm.pdu_rw(ra, rq, wa, wq, (2 * wq) % 256, data(2 * wq))
        L = lim[fc]
        q = rng.choice([0, 1, L - 1, L, L + 1, L + 2, 0x7FFF, 0xFFFF, 2040, 127])
        a = rng.choice(dm.boundary_addrs(cfg, t[fc], rng, max(1, min(q, L))))
        if fc in (1, 2, 3, 4):
            return dm.pdu_read(fc, a, q)
        n = need(fc, q)
        if n > 255:
            n = rng.choice([0, 255, n % 256])
        return dm.pdu_wn(fc, a, q, n, data(n))
    if kind == "addr":
        fc = rng.choice([1, 2, 3, 4, 5, 6, 15, 16, 22, 23])
        L = {1: 2000, 2: 2000, 3: 125, 4: 125, 5: 1, 6: 1, 15: 1968, 16: 123, 22: 1, 23: 121}[fc]
        q = rng.choice([1, 2, 8, L, rng.randint(1, L)])
        a = rng.choice(dm.boundary_addrs(cfg, t[fc], rng, q))
        if fc in (1, 2, 3, 4):
            return dm.pdu_read(fc, a, q)
        if fc == 5:
            return dm.pdu_w1(5, a, rng.choice([0, 0xFF00]))
        if fc == 6:
            return dm.pdu_w1(6, a, rng.randint(0, 65535))
        if fc == 22:
            return dm.pdu_mask(a, rng.randint(0, 65535), rng.randint(0, 65535))
        if fc == 23:
            rq = rng.choice([1, 2, 125])
            ra = rng.choice(dm.boundary_addrs(cfg, "h", rng, rq))
            return dm.pdu_rw(ra, rq, a, q, 2 * q, data(2 * q))
        return dm.pdu_wn(fc, a, q, need(fc, q), data(need(fc, q)))
    if kind == "bc":
        fc = rng.choice([15, 16, 23])
        L = {15: 1968, 16: 123, 23: 121}[fc]
        q = rng.choice([1, 2, 8, 9, 16, 17, L, rng.randint(1, L)])
        n = need(fc, q)
        bc = rng.choice([x for x in (0, 1, n - 1, n + 1, n + 2, 255, max(0, n - 2)) if 0 <= x <= 255 and x != n])
        dl = rng.choice([bc, bc, n if n <= 255 else bc])       # data as announced, or as the quantity needs
        a = rng.choice(dm.boundary_addrs(cfg, "c" if fc == 15 else "h", rng, q))
        if fc == 23:
            ra = rng.choice(dm.boundary_addrs(cfg, "h", rng, 1))
            return dm.pdu_rw(ra, 1, a, q, bc, data(dl))
        return dm.pdu_wn(fc, a, q, bc, data(dl))
    # rwpart: FC23 with exactly one of the two ranges invalid
    rq, wq = rng.choice([1, 3, 125]), rng.choice([1, 2, 121])
    ras = dm.boundary_addrs(cfg, "h", rng, rq)
    was = dm.boundary_addrs(cfg, "h", rng, wq)
    return dm.pdu_rw(rng.choice(ras), rq, rng.choice(was), wq, 2 * wq, data(2 * wq))


def gen_real_traces(tier, rng, prop):
    n = (700 if tier == "quick" else 12000)
    traces = []
    layouts = dm.real_layouts(rng)
    failing = []
    for zero in (0, 1):
        failing.append(dm.layout(zero, dm.seq_block(0, 50, fail=1), dm.seq_block(0, 50), dm.seq_block(0, 50, fail=1), dm.seq_block(0, 50)))
        failing.append(dm.layout(zero, dm.seq_block(0, 50), dm.seq_block(0, 50, fail=1), dm.seq_block(0, 50), dm.sparse_block(range(1, 30), fail=1)))
    for k in range(n):
        big = False
        if prop == "C05" and k % 9 == 0:
            cfg = failing[(k // 9) % len(failing)]
            path = "sync"
        else:
            cfg = layouts[k % len(layouts)]
            big = any(b["kind"] == "seq" and b["size"] > 10000 for b in cfg["blocks"].values())
            if big and tier == "quick" and (k // len(layouts)) % 5:
                cfg = layouts[(k * 7) % 5]          # full-size tables are expensive to dump: one turn in five in the quick tier
                big = any(b["kind"] == "seq" and b["size"] > 10000 for b in cfg["blocks"].values())
            path = "sync" if k % 4 == 0 else "direct"
        ln = rng.randint(1, 8 if big else 30)
        pdus = []
        for _ in range(ln):
            inv = rng.random() < (0.12 if prop == "C04" else 0.7)
            p = rand_invalid_req(cfg, rng) if inv else rand_valid_req(cfg, rng)
            if p:
                pdus.append(p)
        traces.append(dm.run_history("r%d" % k, cfg, pdus, path=path))
    # the two ends of the 16-bit PDU address space, on every layout and for every function code: address 65535 (whose one-based
    # cell 65536 does not exist in any table) and address 0 (whose one-based cell is 1), singly and as the end of a range
    for j, cfg in enumerate(layouts + failing[:1]):
        pdus = []
        for a, q in ((65535, 1), (65534, 2), (65535, 2), (0, 1), (0, 2), (65534, 1)):
            pdus += [dm.pdu_read(fc, a, q) for fc in (1, 2, 3, 4)]
            pdus += [dm.pdu_w1(5, a, 0xFF00), dm.pdu_w1(6, a, 0x1234), dm.pdu_mask(a, 0x00FF, 0x1200),
                     dm.pdu_wn(15, a, q, 1, [3]), dm.pdu_wn(16, a, q, 2 * q, [0xAB, 0xCD] * q),
                     dm.pdu_rw(a, q, a, q, 2 * q, [0x12, 0x34] * q), dm.pdu_rw(0, 1, a, q, 2 * q, [0x56, 0x78] * q)]
            pdus += [dm.pdu_read(fc, a, q) for fc in (1, 3)]
        big = any(b["kind"] == "seq" and b["size"] > 10000 for b in cfg["blocks"].values())
        if big and tier == "quick" and j % 2:
            continue
        fails = any(b["fail"] for b in cfg["blocks"].values())       # a raising datastore is mapped to exception 04 by the front-ends
        traces.append(dm.run_history("e%d" % j, cfg, pdus, path="sync" if (j % 2 or fails) else "direct"))
    return traces


def coil_word_sweep(tier, rng):
    """C05: all 65536 single-coil value words (thorough) / a stratified subset (quick)."""
    cfg = dm.layout(1, dm.seq_block(0, 8), dm.seq_block(0, 8), dm.seq_block(0, 8), dm.seq_block(0, 8))
    words = range(65536) if tier != "quick" else sorted(set(list(range(0, 300)) + list(range(0xFE00, 0x10000)) +
                                                          [1 << b for b in range(16)] + [0xFF00 ^ (1 << b) for b in range(16)] +
                                                          [rng.randint(0, 65535) for _ in range(400)]))
    traces = []
    chunk = 64
    ws = list(words)
    for k in range(0, len(ws), chunk):
        pdus = []
        for w in ws[k:k + chunk]:
            pdus.append(dm.pdu_w1(5, rng.randint(0, 7), w))
        pdus.append(dm.pdu_read(1, 0, 8))
        traces.append(dm.run_history("cw%d" % k, cfg, pdus, path="direct"))
    return traces


def self_test(traces_ok):
    """The binding must have teeth: a corrupted response byte, a dropped event and a forged change must be rejected."""
    import copy
    base = None
    for t in traces_ok:
        if len(t["ev"]) >= 3 and any(e["chg"] for e in t["ev"][:-1]) and all(e["rsp"] for e in t["ev"]):
            base = t
            break
    if base is None:
        raise MachineryError("self-test: no suitable accepted trace")
    muts = []
    a = copy.deepcopy(base); a["id"] = "st_rsp"; a["ev"][-1]["rsp"][-1] ^= 1; muts.append(a)
    b = copy.deepcopy(base); b["id"] = "st_drop"
    idx = next(i for i, e in enumerate(b["ev"][:-1]) if e["chg"])
    del b["ev"][idx]
    # after dropping a write the later observations no longer follow from the model state unless nothing reads it;
    # make the last event read the dropped cell's block state by forging nothing: only count if rejected or unaffected
    muts.append(b)
    c = copy.deepcopy(base); c["id"] = "st_chg"; c["ev"][0]["chg"] = c["ev"][0]["chg"] + [[list(c["cfg"]["blocks"])[0], 0, 12345]]; muts.append(c)
    v, _ = validate_traces("DataModelTrace", "DataModelTrace.cfg", muts, shards=1)
    if v["st_rsp"]["status"] != "FAIL" or v["st_chg"]["status"] != "FAIL":
        raise MachineryError("self-test: corrupted trace accepted: %s" % {k: x["status"] for k, x in v.items()})
    return {k: x["status"] for k, x in v.items()}


def run(prop, tier):
    rng = random.Random(seed() * 7 + (4 if prop == "C04" else 5))
    rep = Report(prop, tier, "model_checking")
    states, reqs = mc_and_export(tier, rep)
    traces = gen_graph_traces(states, reqs, tier, rng, prop == "C04")
    traces += gen_real_traces(tier, rng, prop)
    if prop == "C05":
        traces += coil_word_sweep(tier, rng)
    verdicts, st = validate_traces("DataModelTrace", "DataModelTrace.cfg", traces)
    nev = sum(len(t["ev"]) for t in traces)
    rep.add_tv(st, len(traces), nev)
    byid = {t["id"]: t for t in traces}
    ok_traces = []
    other = 0
    known = {f["id"]: f for f in open_findings(prop)}
    for tid, v in verdicts.items():
        t = byid[tid]
        upto = v["step"] if v["status"] != "OK" else len(t["ev"])
        for e in t["ev"][:upto]:
            rep.distinct((bytes(e["req"][:6]), tuple(e["rsp"][:2]), bool(e["chg"])))
        if v["status"] == "OK":
            ok_traces.append(t)
            continue
        if v["status"] == "UNJUDGED":
            rep.notes["unjudged_steps"] = rep.notes.get("unjudged_steps", 0) + 1
            continue
        if owner_of(v) != prop:
            other += 1
            continue
        payload = {"property": prop, "engine": "DataModelTrace", "trace": t, "verdict": v}
        matched = None
        for fid, f in known.items():
            sig = f.get("signature", {})
            if set(v["clauses"]) <= set(sig.get("clauses", [])) and t["ev"][v["step"] - 1]["req"][0] in sig.get("fc", []):
                matched = fid
        if matched:
            rep.known(matched)
        else:
            rep.violation("-".join(sorted(v["clauses"])), payload)
    rep.notes["steps_failing_clauses_of_the_sibling_property"] = other
    if prop == "C05":
        # datastores that raise, through the execute wrapper of every front-end (exception 04, nothing else happens)
        import servercheck
        import server_drv
        r2 = random.Random(seed() * 7 + 505)
        stc = []
        for k, (fe, kind) in enumerate(servercheck.fe_kinds(tier) * (2 if tier == "quick" else 20)):
            cfgs = {"single": 1, "hosted": [1], "broadcast": 0, "ignore": 0}
            ctx = dm.layout(1, dm.seq_block(0, 40, fail=1), dm.seq_block(0, 40), dm.seq_block(0, 40, fail=r2.choice([0, 1])), dm.seq_block(0, 40, fail=1))
            case = servercheck.Case("f%d" % k, "strict", fe, kind, cfgs, [[0, ctx]])
            reqs = [(1, r2.randint(0, 65535), servercheck.rand_request(r2, allow_other=False)) for _ in range(r2.randint(1, 5))]
            case.add_conn(servercheck.build_frames(kind, reqs))
            case.schedule = servercheck.schedule_for(case, fe, r2, "frames")
            stc.append(servercheck.run_case(case))
        sv, sst = validate_traces("ServerTrace", "ServerTrace.cfg", stc, timeout=3000)
        rep.add_tv(sst, len(stc), sum(len(t["ev"]) for t in stc))
        for t in stc:
            v = sv[t["id"]]
            if v["status"] == "FAIL":
                rep.violation("frontend-%s-%s" % (t["fe"], "-".join(sorted(v["clauses"]))),
                              {"property": prop, "engine": "ServerTrace", "trace": t, "verdict": v})
            else:
                rep.distinct(("failing-store", t["fe"], t["kind"], len(t["ev"])))
    if prop == "C04":
        # "reached through the decoded-request execute path of every framer": pipelined data-access histories through the
        # seven real front-ends on every framing they accept, judged by ServerTrace; C04 owns the data / store clauses
        import servercheck
        stc = servercheck.gen_c09("quick" if tier == "quick" else "thorough", random.Random(seed() * 7 + 404))
        if tier == "quick":
            stc = stc[:300]
        sv, sst = validate_traces("ServerTrace", "ServerTrace.cfg", stc, timeout=3000)
        rep.add_tv(sst, len(stc), sum(len(t["ev"]) for t in stc))
        for t in stc:
            v = sv[t["id"]]
            if v["status"] == "FAIL" and set(v["clauses"]) & {"ResponseData", "UnitStore"} and not (set(v["clauses"]) & {"OneResponsePerRequest", "NotAResponseFrame"}):
                rep.violation("frontend-%s-%s" % (t["fe"], "-".join(sorted(v["clauses"]))),
                              {"property": prop, "engine": "ServerTrace", "trace": t, "verdict": v})
            elif v["status"] == "OK":
                rep.distinct(("frontend", t["fe"], t["kind"], len(t["ev"])))
    rep.notes["self_test"] = self_test(ok_traces)
    for t in ok_traces[:3]:
        rep.sample({"id": t["id"], "path": t["path"], "zero": t["cfg"]["zero"],
                    "events": [{"req": bytes(e["req"]).hex(), "rsp": bytes(e["rsp"]).hex(), "chg": e["chg"][:4]} for e in t["ev"][:4]]})
    rep.cov["rule"] = ("cases = recorded request executions; sources: (state,request) edges of the TLC state graph replayed by state "
                       "injection, every alphabet request on every initial layout, covering walks, random histories on real-size "
                       "layouts (boundary addresses, limits, inconsistent byte counts, failing datastores). distinct_nontrivial counts "
                       "distinct (first 6 request bytes, response function/exception code, store-changed?) triples among judged steps.")
    rep.cov["exhaustive"] = False
    rep.assumptions += ["TLC 1.8.0 and CommunityModules are correct",
                        "spec/DataModel.tla transcribes Modbus Application Protocol v1.1b3 sections 6.1-6.17 correctly",
                        "store observation = public iteration of each block before/after each request",
                        "front-end execute wrapper exercised: synchronous handler; the other front-ends share request.execute (C17 compares them)"]
    return rep.finish()
