"""C09 / C10 / C12 / C17: the seven server front-ends driven in-process (server_drv), judged by TLC:
ServerMC (exhaustive small model), ServerTrace (every event of every history against Server!Serve) and
ServerRelTrace (the same history on several front-ends / interleaved vs alone)."""
import copy
import os
import random
import struct

import dm
import framing_drv as F
import server_drv as D
from vcommon import (Report, model_check, model_check_expect_violation, validate_traces, seed, MachineryError,
                     open_findings, SPEC)

HOSTED_SETS = [[1], [1, 2], [0, 1], [1, 255], [0], [247, 3]]


def unit_ctx(uid, zero=1, small=False):
    n = 12 if small else 40
    return dm.layout(zero, dm.seq_block(0, n, uid % 2), dm.seq_block(0, n, 1), dm.seq_block(0, n, (uid * 7) % 100), dm.seq_block(0, n, 3))


def make_units(cfg, omit=()):
    """omit: tables every unit leaves to ModbusSlaveContext's own default (a private, zeroed block of 65536 cells per table and
    per context - the model cfg says exactly that)"""
    def one(u):
        d = unit_ctx(u)
        if omit:
            for t in omit:
                d["blocks"][d["map"][t]] = dm.seq_block(0, 65536)
            d["omit"] = list(omit)
        return d
    if cfg["single"]:
        return [[0, one(0)]]
    return [[u, one(u)] for u in cfg["hosted"]]


def rand_request(rng, allow_other=True):
    c = rng.random()
    a = rng.choice([0, 1, 5, 38, 39, 40, 41, 100])
    if c < 0.25:
        fc = rng.choice([1, 2, 3, 4])
        return dm.pdu_read(fc, a, rng.choice([1, 2, 8, 39]))
    if c < 0.4:
        return dm.pdu_w1(6, a, rng.randint(0, 65535))
    if c < 0.5:
        return dm.pdu_w1(5, a, rng.choice([0, 0xFF00, 0x1234]))
    if c < 0.6:
        q = rng.choice([1, 2, 3])
        return dm.pdu_wn(16, a, q, 2 * q, [rng.randrange(256) for _ in range(2 * q)])
    if c < 0.68:
        q = rng.choice([1, 8, 9])
        return dm.pdu_wn(15, a, q, (q + 7) // 8, [rng.randrange(256) for _ in range((q + 7) // 8)])
    if c < 0.74:
        return dm.pdu_mask(a, rng.randint(0, 65535), rng.randint(0, 65535))
    if c < 0.8:
        return dm.pdu_rw(a, 2, rng.choice([0, 3, 39]), 1, 2, [1, 2])
    if c < 0.86:
        return bytes([rng.choice([9, 10, 13, 14, 18, 19, 100])])
    if not allow_other:
        return dm.pdu_read(3, 0, 1)
    return rng.choice([bytes([17]), bytes([7]), bytes([11]), bytes([43, 14, 1, 0]), bytes([8, 0, 0, 0x12, 0x34])])


def build_frames(kind, reqs):
    """reqs = [(uid, tid, pdu)] -> frames (input builder framing_drv.pyframe; TLC re-checks them: clause GhostFrames)"""
    out = []
    for i, (u, t, p) in enumerate(reqs):
        t2 = t if kind == "tcp" else 0
        if kind == "rtu" and len(p) == 1 and p[0] in (9, 10, 13, 14, 18, 19, 100):
            # a stream receiver cannot know the length of an RTU frame with an unknown function code (no inter-frame
            # timing here); pymodbus assumes 5 bytes, so unknown-function requests carry one data byte on RTU
            p = bytes(p) + b"\x00"
        if kind == "bin":
            # 0x7B / 0x7D inside a binary frame is the C03/C06 known finding; keep it out of the server histories
            raw = F.pyframe("rtu", 0, 0, u, p)
            if 0x7B in raw or 0x7D in raw:
                u = 1 if u in (0x7B, 0x7D) else u
                p = dm.pdu_read(3, 0, 1)
                raw = F.pyframe("rtu", 0, 0, u, p)
                if 0x7B in raw or 0x7D in raw:
                    p = dm.pdu_read(3, 1, 1)
        out.append({"kind": kind, "tid": t2, "pid": 0, "uid": u, "pdu": list(p), "bytes": F.pyframe(kind, t2, 0, u, p)})
    return out


class Case:
    """one history: per connection a list of frames / raw garbage items and a schedule of (conn, nbytes)"""

    def __init__(self, tid, mode, fe, kind, cfg, units):
        self.id, self.mode, self.fe, self.kind, self.cfg, self.units = tid, mode, fe, kind, cfg, units
        self.streams = []   # per conn: bytes
        self.sent = []      # per conn: ghost
        self.schedule = []  # (conn index (1-based), nbytes)

    def add_conn(self, items):
        data, sent = b"", []
        for it in items:
            if isinstance(it, (bytes, bytearray)):
                data += bytes(it)
            else:
                sent.append({"start": len(data) + 1, "len": len(it["bytes"]), "uid": it["uid"], "tid": it["tid"], "pid": it["pid"],
                             "pdu": list(it["pdu"]), "exp": 1 if it.get("valid", True) else 0})
                data += it["bytes"]
        self.streams.append(data)
        self.sent.append(sent)
        return len(self.streams)


def run_case(case, probe=None):
    if D.POISONED:
        # a handler of this process hung in an earlier history (reported there): what is stuck with it (a lock, a singleton) would make
        # every later history wait for the watchdog as well; they are not run
        return {"id": case.id, "mode": case.mode, "fe": case.fe, "kind": case.kind,
                "cfg": {"single": case.cfg["single"], "hosted": case.cfg["hosted"], "broadcast": case.cfg["broadcast"], "ignore": case.cfg["ignore"]},
                "units": case.units, "sent": [[] for _ in case.sent], "streams": [[] for _ in case.streams], "ev": [], "skipped": "after a hang"}
    D.reset_singletons()
    sc, blocks = D.build_server_context(case.cfg, case.units)
    fe = D.FRONTENDS[case.fe](case.kind, sc, case.cfg)
    conns = [fe.open() for _ in case.streams]
    pos = [0] * len(case.streams)
    ev = []
    before = D.dump_units(blocks)

    def one(op, ci, n):
        nonlocal before
        chunk = case.streams[ci][pos[ci]:pos[ci] + n]
        pos[ci] += n
        r = D.safe_feed(fe, conns[ci], chunk)
        after = D.dump_units(blocks)
        chg, ext = D.diff_units(before, after)
        before = after
        rec = {"op": op, "conn": ci + 1, "n": len(chunk),
               "writes": [{"conn": (conns.index(c) + 1) if c in conns else 0, "bytes": list(b)} for c, b in r["writes"]],
               "raised": r["raised"], "closed": r["closed"], "chg": chg, "ext": ext, "note": r.get("note", "")}
        ev.append(rec)
    for ci, n in case.schedule:
        one("feed", ci - 1, n)
    if probe is not None and case.fe == "syncSerial":
        # a serial line has no "fresh connection": after the resynchronisation allowance of C11 (two maximum-size
        # frames of valid traffic, fed in hostile mode) the probe is sent on the same line
        flush = probe["flush"]
        start0 = len(case.streams[0])
        data = case.streams[0]
        for f in flush + [probe]:
            case.sent[0].append({"start": len(data) + 1, "len": len(f["bytes"]), "uid": f["uid"], "tid": f["tid"], "pid": 0,
                                 "pdu": list(f["pdu"]), "exp": 1})
            data += f["bytes"]
        case.streams[0] = data
        for f in flush:
            one("feed", 0, len(f["bytes"]))
        one("probe", 0, len(probe["bytes"]))
    elif probe is not None and getattr(case, "probe_existing", False) and len(conns) >= 2:
        # "nor stops serving OTHER connections": the probe goes to a connection that was opened before the hostile traffic and has
        # been idle since
        ci = len(conns) - 1
        case.sent[ci].append({"start": len(case.streams[ci]) + 1, "len": len(probe["bytes"]), "uid": probe["uid"], "tid": probe["tid"],
                              "pid": 0, "pdu": list(probe["pdu"]), "exp": 1})
        case.streams[ci] = case.streams[ci] + probe["bytes"]
        one("probe", ci, len(probe["bytes"]))
    elif probe is not None:
        c = fe.open()
        conns.append(c)
        case.streams.append(probe["bytes"])
        case.sent.append([{"start": 1, "len": len(probe["bytes"]), "uid": probe["uid"], "tid": probe["tid"], "pid": 0,
                           "pdu": list(probe["pdu"]), "exp": 1}])
        pos.append(0)
        one("probe", len(conns) - 1, len(probe["bytes"]))
    try:
        fe.close()
    except Exception:
        pass
    return {"id": case.id, "mode": case.mode, "fe": case.fe, "kind": case.kind,
            "cfg": {"single": case.cfg["single"], "hosted": case.cfg["hosted"], "broadcast": case.cfg["broadcast"], "ignore": case.cfg["ignore"]},
            "units": case.units, "sent": case.sent, "streams": [list(x) for x in case.streams], "ev": ev,
            "probe_existing": 1 if getattr(case, "probe_existing", False) else 0}


def fe_kinds(tier):
    """(front-end, framing) pairs"""
    pairs = [(fe, "tcp") for fe in D.STREAM_FES + D.DGRAM_FES]
    pairs += [("syncSerial", k) for k in ("rtu", "ascii", "bin")]
    pairs += [(fe, k) for fe in D.STREAM_FES for k in ("rtu", "ascii")]
    return pairs


def schedule_for(case, fe, rng, style):
    """per-connection chunking -> interleaved schedule. Datagram front-ends get whole frames per datagram."""
    per = []
    dgram = D.FRONTENDS[fe].datagram
    for ci, (data, sent) in enumerate(zip(case.streams, case.sent)):
        cuts = []
        if style == "multi":
            k = rng.choice([2, 3])               # several whole frames per read / per datagram, for every front-end
            ends = [s["start"] + s["len"] - 1 for s in sent]
            cuts = [e for j, e in enumerate(ends) if (j + 1) % k == 0]
        elif dgram or style == "frames":
            k = rng.choice([1, 1, 2, 3]) if not dgram else 1
            ends = [s["start"] + s["len"] - 1 for s in sent]
            cuts = [e for j, e in enumerate(ends) if (j + 1) % k == 0]
        elif style == "whole":
            cuts = []
        else:
            n = len(data)
            cuts = sorted(set(rng.randint(1, max(1, n - 1)) for _ in range(rng.choice([1, 2, 4])))) if n > 1 else []
        cuts = [c for c in cuts if 0 < c < len(data)] + [len(data)]
        sizes = [b - a for a, b in zip([0] + cuts[:-1], cuts)]
        per.append([(ci + 1, s) for s in sizes if s > 0])
    sched = []
    idx = [0] * len(per)
    while any(idx[i] < len(per[i]) for i in range(len(per))):
        live = [i for i in range(len(per)) if idx[i] < len(per[i])]
        i = rng.choice(live)
        sched.append(per[i][idx[i]])
        idx[i] += 1
    return sched


def add_idle(case, sched, rng):
    """threaded TCP handler only: idle periods in which recv() times out (an event with 0 bytes), placed where the connection has
    no partly received frame (a time-out in the middle of a frame may legitimately make a server drop the fragment)"""
    ends = [{0} | {f["start"] + f["len"] - 1 for f in sent} for sent in case.sent]
    fed = [0] * len(case.streams)
    out = []
    for ci, n in sched:
        if fed[ci - 1] in ends[ci - 1] and rng.random() < 0.4:
            out.append((ci, 0))
        out.append((ci, n))
        fed[ci - 1] += n
    return out


def gen_c09(tier, rng):
    traces = []
    n = 900 if tier == "quick" else 8000
    pairs = fe_kinds(tier)
    for k in range(n):
        fe, kind = pairs[k % len(pairs)]
        cfg = {"single": rng.choice([0, 0, 1]), "hosted": rng.choice(HOSTED_SETS), "broadcast": rng.choice([0, 0, 1]),
               "ignore": rng.choice([0, 1])}
        if not D.FRONTENDS[fe].supports_broadcast:
            cfg["broadcast"] = 0
        units = make_units(cfg)
        case = Case("n%d" % k, "strict", fe, kind, cfg, units)
        nconn = 1 if fe == "syncSerial" else rng.choice([1, 1, 2])
        for _ in range(nconn):
            reqs = []
            for j in range(rng.randint(1, 5)):
                u = rng.choice(cfg["hosted"] + cfg["hosted"] + [0, 3, 9, 255])
                reqs.append((u, rng.randint(0, 65535), rand_request(rng)))
            if nconn == 1 and rng.random() < 0.15:
                # force listen only: no response (6.8.1). Only as the very last request of a single-connection history,
                # because what a server does *afterwards* (Twisted goes silent, the others do not) is not C09's subject
                reqs.append((rng.choice(cfg["hosted"]), 5, bytes([8, 0, 4, 0, 0])))
            case.add_conn(build_frames(kind, reqs))
        case.schedule = schedule_for(case, fe, rng, rng.choice(["frames", "frames", "whole", "random"]))
        if fe == "syncTcp" and k % 2 == 0:
            case.schedule = add_idle(case, schedule_for(case, fe, rng, "random"), rng)
        if fe == "syncSerial" and k % 2 == 0:
            case.schedule = add_idle(case, case.schedule, rng)      # idle gaps longer than the port's read time-out, between frames
        pr = build_frames(kind, [(cfg["hosted"][0], 77, dm.pdu_read(3, 0, 2))])[0]
        traces.append(run_case(case, probe=None))
    # TLC-generated behaviours of ServerMC replayed into the stream front-ends
    hs, _ = tlc_server_histories(400 if tier == "quick" else 4000, 6, seed() % 100000)
    rng.shuffle(hs)
    for j, h in enumerate(hs[:240 if tier == "quick" else 3000]):
        fes = [fe for fe in D.STREAM_FES if not (h["broadcast"] and not D.FRONTENDS[fe].supports_broadcast)]
        traces.append(replay_server_history("g%d" % j, h, fes[j % len(fes)], rng))
    return traces


def tlc_server_histories(n, depth, tlc_seed):
    """random behaviours of ServerGen (tlc -simulate), de-duplicated"""
    from vcommon import run_tlc, parse_printed
    import json as _json
    cfg = open(os.path.join(SPEC, "ServerGen.cfg")).read().replace("GenDepth = 6", "GenDepth = %d" % depth)
    res = run_tlc("ServerGen", None, workers=1, timeout=600, cfg_text=cfg,
                  extra=["-simulate", "num=%d" % n, "-depth", str(depth + 1), "-seed", str(tlc_seed)])
    hs = parse_printed(res["out"], "HIST")
    if not hs:
        raise MachineryError("ServerGen produced no behaviours:\n" + "\n".join(res["out"].splitlines()[-20:]))
    seen, out = set(), []
    for h in hs:
        key = _json.dumps(h, sort_keys=True)
        if key not in seen:
            seen.add(key)
            out.append(h)
    return out, res


def replay_server_history(tid, h, fe, rng):
    """one ServerGen behaviour replayed into a real stream front-end (MBAP framing): whole frames, or a frame split in two
    reads with the other connection's traffic in between"""
    cfg = {"single": 1 if h["single"] else 0, "hosted": sorted(h["hosted"]), "broadcast": 1 if h["broadcast"] else 0,
           "ignore": 1 if h["ignore"] else 0}
    ctx1 = lambda: dm.layout(1, dm.seq_block(0, 1), None, dm.seq_block(0, 1), None, shared=True)
    units = [[0, ctx1()]] if cfg["single"] else [[u, ctx1()] for u in cfg["hosted"]]
    case = Case(tid, "strict", fe, "tcp", cfg, units)
    per = {1: [], 2: []}
    sched = []
    half = {}
    for e in h["hist"]:
        c = e["c"]
        if e["op"] in ("whole", "part"):
            fr = build_frames("tcp", [(e["uid"], 7, bytes(e["pdu"]))])[0]
            per[c].append(fr)
            n = len(fr["bytes"])
            if e["op"] == "whole":
                sched.append((c, n))
            else:
                k = rng.randint(1, n - 1)
                half[c] = n - k
                sched.append((c, k))
        elif e["op"] == "rest" and c in half:
            sched.append((c, half.pop(c)))
        elif e["op"] == "idle" and fe == "syncTcp":
            sched.append((c, 0))          # recv() times out (only the threaded handler has such an event)
    case.add_conn(per[1])
    case.add_conn(per[2])
    case.schedule = sched
    t = run_case(case)
    t["source"] = "tlc"
    return t


def gen_c10(tier, rng):
    traces = []
    pairs = [(fe, "tcp") for fe in D.STREAM_FES + D.DGRAM_FES] + [("syncSerial", "rtu"), ("syncSerial", "ascii")]
    uids = list(range(256)) if tier != "quick" else sorted(set([0, 1, 2, 3, 4, 127, 246, 247, 248, 254, 255] + [rng.randrange(256) for _ in range(25)]))
    k = 0
    for hosted in HOSTED_SETS:
        for single in (0, 1):
            for bc in (0, 1):
                for ign in (0, 1):
                    sample = uids if tier != "quick" else rng.sample(uids, 6) + [0, 255, hosted[0]]
                    for uid in sample:
                        fe, kind = pairs[k % len(pairs)]
                        cfg = {"single": single, "hosted": hosted, "broadcast": bc if D.FRONTENDS[fe].supports_broadcast else 0, "ignore": ign}
                        # every fifth case: the units leave the written tables to the context's default blocks
                        units = make_units(cfg, omit=("c", "h") if k % 5 == 4 else ())
                        case = Case("u%d" % k, "strict", fe, kind, cfg, units)
                        reqs = [(uid, 11, dm.pdu_w1(6, 3, 1000 + uid)), (uid, 12, dm.pdu_read(3, 3, 1)),
                                (uid, 13, dm.pdu_wn(15, 1, 3, 1, [5]))]
                        reqs += [(h, 20 + i, dm.pdu_read(3, 3, 1)) for i, h in enumerate(hosted)]
                        case.add_conn(build_frames(kind, reqs))
                        case.schedule = schedule_for(case, fe, rng, "frames")
                        traces.append(run_case(case))
                        k += 1
    # units of different sizes: a broadcast write that one unit must refuse (address beyond its table) still reaches the units that
    # can take it, whatever the order in which the units are registered
    for fe, kind in pairs:
        if not D.FRONTENDS[fe].supports_broadcast:
            continue
        for hosted in ([2, 1], [1, 2], [2, 3, 4]):
            cfg = {"single": 0, "hosted": hosted, "broadcast": 1, "ignore": k % 2}
            units = [[u, unit_ctx(u, small=(u % 2 == 0))] for u in hosted]
            case = Case("w%d" % k, "strict", fe, kind, cfg, units)
            reqs = [(0, 31, dm.pdu_w1(6, 30, 4000 + k % 100)), (0, 32, dm.pdu_wn(15, 20, 3, 1, [5])), (0, 33, dm.pdu_w1(6, 3, 77))]
            reqs += [(h, 40 + i, dm.pdu_read(3, 3, 1)) for i, h in enumerate(hosted)]
            case.add_conn(build_frames(kind, reqs))
            case.schedule = schedule_for(case, fe, rng, "frames")
            traces.append(run_case(case))
            k += 1
    # every front-end with unit 0 hosted (alone and beside unit 1), broadcast on: a write to unit 0 is a broadcast (all units, no
    # answer), unit 255 is just another unit id
    for fe, kind in pairs:
        for hosted in ([0, 1], [0], [1, 255]):
            for single in (0, 1):
                for uid in (0, 255, 1):
                    cfg = {"single": single, "hosted": hosted, "broadcast": 1 if D.FRONTENDS[fe].supports_broadcast else 0, "ignore": k % 2}
                    case = Case("v%d" % k, "strict", fe, kind, cfg, make_units(cfg))
                    reqs = [(uid, 11, dm.pdu_w1(6, 3, 1000 + uid)), (uid, 12, dm.pdu_read(3, 3, 1)), (uid, 13, dm.pdu_wn(15, 1, 3, 1, [5]))]
                    reqs += [(h, 20 + i, dm.pdu_read(3, 3, 1)) for i, h in enumerate(hosted)]
                    case.add_conn(build_frames(kind, reqs))
                    case.schedule = schedule_for(case, fe, rng, "frames")
                    traces.append(run_case(case))
                    k += 1
    return traces


def hostile_items(kind, rng, hosted):
    """a stream mixing garbage / mutated frames / valid frames with hostile PDUs"""
    items = []
    good = lambda pdu, uid=None: build_frames(kind, [(uid if uid is not None else hosted[0], rng.randint(0, 65535), pdu)])[0]
    for _ in range(rng.randint(1, 5)):
        c = rng.random()
        if c < 0.2:
            items.append(bytes(rng.randrange(256) for _ in range(rng.choice([1, 2, 7, 30, 300]))))
        elif c < 0.4:
            f = good(rand_request(rng))
            b = bytearray(f["bytes"])
            for _ in range(rng.choice([1, 1, 3])):
                b[rng.randrange(len(b))] ^= 1 << rng.randrange(8)
            items.append(bytes(b))
        elif c < 0.52:
            f = good(rand_request(rng))
            items.append(f["bytes"][:rng.randint(1, len(f["bytes"]) - 1)])
        elif c < 0.58 and kind in ("rtu", "bin", "ascii"):
            # a write request whose checksum field is damaged in a structured way (bytes exchanged, zeroed, all ones, complemented)
            f = good(rng.choice([dm.pdu_w1(6, rng.choice([0, 3, 17]), rng.randint(1, 65535)), dm.pdu_w1(5, rng.choice([0, 3, 17]), 0xFF00),
                                 dm.pdu_wn(16, 2, 2, 4, [rng.randrange(1, 256) for _ in range(4)])]))
            alts = F.checksum_variants(kind, f["bytes"])
            if alts:
                items.append(rng.choice(alts))
        elif c < 0.8:
            # checksum-valid frame, hostile PDU
            fc = rng.choice([1, 3, 5, 6, 15, 16, 22, 23, 8, 20, 21, 24, 43, 7, 17])
            body = {0: b"", 1: bytes([rng.randrange(256)]), 2: bytes(rng.randrange(256) for _ in range(rng.choice([2, 3, 4, 6, 9, 20]))),
                    3: struct.pack(">HHB", 0, 3, 200) + b"\x00\x01", 4: struct.pack(">HHB", 0, 0xFFFF, 0)}[rng.randrange(5)]
            items.append(good(bytes([fc]) + body))
        elif c < 0.84:
            # checksum-valid frame carrying a well-formed write-multiple request followed by more bytes than its byte count announces
            # (whole extra registers / coils bytes): what follows the announced data is not part of the request
            a, q = rng.choice([0, 1, 5, 30, 37]), rng.choice([1, 2, 3])
            extra = bytes(rng.randrange(1, 256) for _ in range(rng.choice([1, 2, 2, 4, 6])))
            pdu = rng.choice([dm.pdu_wn(16, a, q, 2 * q, [rng.randrange(256) for _ in range(2 * q)]),
                              dm.pdu_wn(15, a, 8 * q, q, [rng.randrange(256) for _ in range(q)]),
                              dm.pdu_rw(a, 1, a, q, 2 * q, [rng.randrange(256) for _ in range(2 * q)])])
            items.append(good(pdu + extra))
        elif c < 0.88:
            # checksum-valid write-multiple / read-write-multiple request whose announced quantity disagrees with its byte count and
            # data (fewer or more registers / coil bytes than announced, byte count consistent with the data): refused, nothing written
            a, q = rng.choice([0, 1, 5, 30, 37, 39]), rng.choice([1, 2, 3])
            n = rng.choice([x for x in (1, 2, 3, 4) if x != q])
            words = [rng.randrange(1, 256) for _ in range(2 * n)]
            items.append(good(rng.choice([dm.pdu_rw(a, 1, a, q, 2 * n, words), dm.pdu_rw(0, 2, a, q, 2 * n, words),
                                          dm.pdu_wn(16, a, q, 2 * n, words),
                                          dm.pdu_wn(15, a, 8 * q, n, words[:n])])))
        elif c < 0.93:
            # checksum-valid frame whose data-access PDU is internally inconsistent or out of limits (byte count vs quantity,
            # quantity beyond the limit, bad coil word, address beyond the table): must be refused without touching the store
            import dmcheck
            items.append(good(dmcheck.rand_invalid_req(unit_ctx(hosted[0]), rng)))
        else:
            items.append(good(rand_request(rng)))
    if kind == "tcp" and rng.random() < 0.3:
        ln = rng.choice([0, 1, 65535, 2])
        items.insert(rng.randrange(len(items) + 1), struct.pack(">HHHB", 1, 0, ln, hosted[0]) + bytes(rng.randrange(256) for _ in range(rng.choice([0, 1, 5]))))
    return items


def gen_c12(tier, rng):
    traces = []
    n = 900 if tier == "quick" else 10000
    pairs = fe_kinds(tier)
    for k in range(n):
        fe, kind = pairs[k % len(pairs)]
        cfg = {"single": rng.choice([0, 1]), "hosted": rng.choice([[1], [1, 2]]), "broadcast": 0, "ignore": rng.choice([0, 1])}
        units = make_units(cfg)
        case = Case("h%d" % k, "hostile", fe, kind, cfg, units)
        items = hostile_items(kind, rng, cfg["hosted"])
        dgram = D.FRONTENDS[fe].datagram
        case.add_conn(items)
        if fe != "syncSerial" and k % 3 == 1:
            case.add_conn([])               # a second connection, opened before the hostile traffic, idle until the probe
            case.probe_existing = True
        data = case.streams[0]
        if dgram:
            # one datagram per item
            sizes = [len(it) if isinstance(it, (bytes, bytearray)) else len(it["bytes"]) for it in items]
        else:
            cuts = sorted(set(rng.randint(1, max(1, len(data) - 1)) for _ in range(rng.choice([0, 1, 3])))) if len(data) > 1 else []
            cuts = cuts + [len(data)]
            sizes = [b - a for a, b in zip([0] + cuts[:-1], cuts)]
        case.schedule = [(1, s) for s in sizes if s > 0]
        if dgram and k % 4 == 2:
            # a zero-length datagram is a legal UDP event
            case.schedule.insert(rng.randrange(len(case.schedule) + 1), (1, 0))
        probe = build_frames(kind, [(cfg["hosted"][0], 4242, dm.pdu_read(3, 0, 3))])[0]
        if fe == "syncSerial":
            per = {"rtu": 8, "ascii": 17, "bin": 10}[kind]
            nfl = (2 * {"rtu": 256, "ascii": 513, "bin": 514}[kind]) // per + 2
            probe["flush"] = build_frames(kind, [(cfg["hosted"][0], 1, dm.pdu_read(4, 0, 1))] * nfl)
        traces.append(run_case(case, probe=probe))
    return traces


def gen_c11_server(tier, rng):
    """C11 through serving handlers: garbage, then read requests of distinct cells (distinct values) on serial framings"""
    traces = []
    maxframe = {"rtu": 256, "ascii": 513, "bin": 514}
    fixed = {"bin": [b"{}", b"{\x01}", b"xx{}yy", b"}{", b"{{"], "ascii": [b":\r\n", b"::", b":0\r\n", b":01\r\n", b":0103\r\n:"],
             "rtu": [b"\x00", b"\x01\x03", b"\x01\x10\x00", b"\x01\x2b\x0e", b"\xff\xff\xff"]}
    pairs = [("syncSerial", "rtu"), ("syncSerial", "ascii"), ("syncSerial", "bin"), ("syncTcp", "rtu"), ("aioTcp", "ascii"), ("twTcp", "rtu")]
    k = 0
    for fe, kind in pairs:
        for c in range(9 if tier == "quick" else 40):
            cfg = {"single": 0, "hosted": [1], "broadcast": 0, "ignore": 1}
            ctx = dm.layout(1, dm.seq_block(0, 8), dm.seq_block(0, 8), dm.seq_block(0, 400), dm.seq_block(0, 8))
            ctx["blocks"]["bh"]["ov"] = [[a, 1000 + a] for a in range(400)]        # distinct values: a response identifies its request
            case = Case("y%d" % k, "resync", fe, kind, cfg, [[1, ctx]])
            special = [F.pyframe(kind, 0, 0, 1, bytes([3])), F.pyframe(kind, 0, 0, 1, bytes([16, 0, 1])), F.pyframe(kind, 0, 0, 1, bytes([1, 0]))]
            if c < len(fixed[kind]):
                g = fixed[kind][c]
            elif c < len(fixed[kind]) + len(special):
                g = special[c - len(fixed[kind])]       # integrity-checked frame whose PDU is truncated: the decoder raises
            else:
                g = bytes(rng.randrange(256) for _ in range(rng.choice([1, 2, 5, 17, 40])))
            nreq = (3 * maxframe[kind]) // {"rtu": 8, "ascii": 17, "bin": 10}[kind] + 4
            addrs = list(range(1, 399))
            if kind == "bin":
                # 0x7B / 0x7D inside a binary frame (request or response) is the C03/C06/C11 known finding: keep it out
                ok = lambda a: not ({0x7B, 0x7D} & set(F.pyframe("rtu", 0, 0, 1, dm.pdu_read(3, a, 1)) +
                                                       F.pyframe("rtu", 0, 0, 1, bytes([3, 2]) + struct.pack(">H", 1000 + a))))
                addrs = [a for a in addrs if ok(a)]
            reqs = [(1, 0, dm.pdu_read(3, a, 1)) for a in addrs[:nreq]]
            frames = build_frames(kind, reqs)
            case.add_conn([g] + frames)
            per = rng.choice([1, 1, 2, 3])
            sched = [(1, len(g))]
            chunk = 0
            for j, f in enumerate(frames):
                chunk += len(f["bytes"])
                if (j + 1) % per == 0:
                    sched.append((1, chunk))
                    chunk = 0
            if chunk:
                sched.append((1, chunk))
            case.schedule = sched
            t = run_case(case)
            t["g"] = len(g)
            traces.append(t)
            k += 1
    return traces


def obs_of(trace, conn_filter=None):
    obs = []
    for e in trace["ev"]:
        if conn_filter is not None and e["conn"] != conn_filter:
            continue
        if e["n"] == 0 and e["op"] == "feed" and not e["writes"] and not e["chg"] and not e["closed"] and not e["raised"]:
            continue        # an idle period (receive time-out) in which nothing happened is not an input event of the comparison
        obs.append({"w": [w["bytes"] for w in e["writes"] if w["conn"] == e["conn"]], "chg": e["chg"], "closed": e["closed"]})
    return obs


def gen_c17(tier, rng):
    """returns (server traces judged by ServerTrace are not needed here) relational traces"""
    rel = []
    n = 150 if tier == "quick" else 2000
    for k in range(n):
        kind = rng.choice(["tcp", "tcp", "rtu", "ascii"])
        cfg = {"single": rng.choice([0, 1]), "hosted": rng.choice([[1], [1, 2], [247, 3], [0, 1], [1, 255]]), "broadcast": 0,
               "ignore": rng.choice([0, 1])}
        units = make_units(cfg)
        if k % 5 == 4:
            # a datastore that raises on some tables: every front-end has its own copy of the "unable to fulfil the request" branch
            units = [[u, dm.layout(1, dm.seq_block(0, 40, fail=1), dm.seq_block(0, 40), dm.seq_block(0, 40, fail=rng.choice([0, 1])),
                                   dm.seq_block(0, 40, fail=1))] for u, _ in units]
        reqs = []
        for j in range(rng.randint(1, 6)):
            u = rng.choice(cfg["hosted"] + cfg["hosted"] + [9, 4])
            c = rng.random()
            p = rand_request(rng, allow_other=False) if c < 0.85 else (bytes([43, 14, 1, 0]) if c < 0.95 else bytes([43, 14, 0, 0]))
            reqs.append((u, rng.randint(1, 65535), p))
        if k % 10 == 7:
            # Force Listen Only Mode as the very last request: every front-end stays silent for it (what a server does afterwards
            # differs and is not C17's subject, see Device.tla)
            reqs.append((cfg["hosted"][0], rng.randint(1, 65535), bytes([8, 0, 4, 0, 0])))
        frames = build_frames(kind, reqs)
        fes = (D.STREAM_FES + D.DGRAM_FES) if kind == "tcp" else (D.STREAM_FES + ["syncSerial"])
        split = (k % 3 == 2)           # every third history: arbitrary chunk boundaries, on the stream front-ends only
        if split:
            fes = [fe for fe in fes if not D.FRONTENDS[fe].datagram]
        runs = []
        sched = None
        for fe in fes:
            case = Case("x", "strict", fe, kind, cfg, copy.deepcopy(units))
            case.add_conn(frames)
            if sched is None:
                # whole frames per event is valid for every front-end; random boundaries only for streams
                sched = schedule_for(case, "syncTcp" if split else "syncUdp", rng, "random" if split else ("multi" if k % 4 == 1 else "frames"))
            case.schedule = sched
            if split and fe == "syncTcp" and k % 2 == 0:
                # the threaded TCP handler sees receive time-outs (idle periods between frames) the event-driven front-ends never
                # see: what it answers afterwards must still be what they answer to the same bytes
                case.schedule = add_idle(case, sched, rng)
            t = run_case(case)
            runs.append({"fe": fe, "obs": obs_of(t)})
        rel.append({"id": "r%d" % k, "mode": "interchange", "kind": kind, "runs": runs, "reqs": [[u, t, list(p)] for u, t, p in reqs]})
    # directed: a request for a unit that is not hosted, followed in the same read by requests for hosted units (the later ones must be
    # served on every front-end whether the first is ignored or refused), with unit 0 hosted so that the framer lets every id through
    for j, kind in enumerate(["tcp", "rtu", "ascii"] * (2 if tier == "quick" else 10)):
        for ign in (0, 1):
            cfg = {"single": 0, "hosted": [0, 1], "broadcast": 0, "ignore": ign}
            units = make_units(cfg)
            reqs = [(rng.choice([9, 4, 77]), rng.randint(1, 65535), dm.pdu_read(3, 0, 2)),
                    (1, rng.randint(1, 65535), dm.pdu_w1(6, 2, rng.randint(1, 65535))),
                    (rng.choice([9, 200]), rng.randint(1, 65535), dm.pdu_w1(6, 3, 7)),
                    (1, rng.randint(1, 65535), dm.pdu_read(3, 0, 4))]
            frames = build_frames(kind, reqs)
            fes = (D.STREAM_FES + D.DGRAM_FES) if kind == "tcp" else (D.STREAM_FES + ["syncSerial"])
            runs, sched = [], None
            for fe in fes:
                case = Case("x", "strict", fe, kind, cfg, copy.deepcopy(units))
                case.add_conn(frames)
                if sched is None:
                    sched = schedule_for(case, "syncUdp", rng, "whole" if j % 2 else "multi")
                case.schedule = sched
                runs.append({"fe": fe, "obs": obs_of(run_case(case))})
            rel.append({"id": "m%d_%d" % (j, ign), "mode": "interchange", "kind": kind, "runs": runs, "reqs": [[u, t, list(p)] for u, t, p in reqs]})
    # directed: two peers / connections; the first repeats a byte-identical read (same transaction id) after the second has written the
    # cell it reads: every front-end executes every request it receives, so the second answer shows the new value everywhere
    for j in range(6 if tier == "quick" else 60):
        cfg = {"single": 1, "hosted": [1], "broadcast": 0, "ignore": 0}
        units = make_units(cfg)
        a = rng.choice([0, 3, 17])
        tidr = rng.randint(1, 65535)
        rd = build_frames("tcp", [(1, tidr, dm.pdu_read(3, a, 2))])[0]
        wr = build_frames("tcp", [(1, rng.randint(1, 65535), dm.pdu_w1(6, a, rng.randint(1, 65535)))])[0]
        runs = []
        for fe in D.STREAM_FES + D.DGRAM_FES:
            case = Case("x", "strict", fe, "tcp", cfg, copy.deepcopy(units))
            case.add_conn([rd, rd, rd])
            case.add_conn([wr])
            n1, n2 = len(rd["bytes"]), len(wr["bytes"])
            case.schedule = [(1, n1), (1, n1), (2, n2), (1, n1)]
            runs.append({"fe": fe, "obs": obs_of(run_case(case))})
        rel.append({"id": "p%d" % j, "mode": "interchange", "kind": "tcp", "runs": runs, "reqs": []})
    # isolation: 2-3 connections interleaved (random chunk boundaries) vs the same connection alone on the same store history
    m = 100 if tier == "quick" else 1500
    for k in range(m):
        fe = rng.choice(D.STREAM_FES)
        kind = rng.choice(["tcp", "rtu", "ascii"])
        cfg = {"single": 1, "hosted": [1], "broadcast": 0, "ignore": 0}
        units = make_units(cfg)
        nconn = rng.choice([2, 3])
        # each connection works on its own address range so that its responses do not depend on the others' writes
        conn_frames = []
        for c in range(nconn):
            base = 10 * c
            reqs = []
            for j in range(rng.randint(1, 4)):
                if rng.random() < 0.5:
                    reqs.append((1, rng.randint(0, 65535), dm.pdu_w1(6, base + rng.randrange(5), rng.randint(0, 65535))))
                else:
                    reqs.append((1, rng.randint(0, 65535), dm.pdu_read(3, base, 5)))
            conn_frames.append(build_frames(kind, reqs))
        case = Case("i", "strict", fe, kind, cfg, copy.deepcopy(units))
        for fr in conn_frames:
            case.add_conn(fr)
        case.schedule = schedule_for(case, fe, rng, "random")
        inter = run_case(case)
        for c in range(nconn):
            solo = Case("s", "strict", fe, kind, cfg, copy.deepcopy(units))
            solo.add_conn(conn_frames[c])
            solo.schedule = [(1, nbytes) for (ci, nbytes) in case.schedule if ci == c + 1]
            so = run_case(solo)
            rel.append({"id": "i%d_%d" % (k, c), "mode": "isolation", "kind": kind,
                        "runs": [{"fe": fe + ":interleaved", "obs": obs_of(inter, c + 1)}, {"fe": fe + ":alone", "obs": obs_of(so, 1)}]})
    return rel


OWNER = {"NotAResponseFrame": {"C09", "C12"}, "OneResponsePerRequest": {"C09"}, "WrongDestination": {"C09", "C12"},
         "NoEscape": {"C12", "C09"}, "ResponseData": set(), "UnitStore": {"C10"}, "Extent": {"C10", "C12"},
         "StoreOnlyByValidWrites": {"C12"}, "UnsolicitedResponse": {"C12"}, "Probe": {"C12"},
         "Interchangeable": {"C17"}, "Isolation": {"C17"}}


def match_known(known, t, v):
    for fid, f in known.items():
        sig = f.get("signature", {})
        if sig.get("fe") and t.get("fe") not in sig["fe"]:
            continue
        if sig.get("kind") and t.get("kind") not in sig["kind"]:
            continue
        if sig.get("pair"):
            d = v.get("detail", {})
            if not ({d.get("a"), d.get("b")} & set(sig["pair"])):
                continue
        if set(v["clauses"]) & set(sig.get("clauses", [])):
            return fid
    return None


def mc(prop, rep):
    res = model_check("ServerMC", "ServerMC.cfg", timeout=900)
    rep.add_mc(res, "ServerMC.cfg")
    base = open(os.path.join(SPEC, "ServerMC.cfg")).read()
    devs = {"C09": ["AnswersBroadcast", "NoTid", "ResetStaysOn"], "C10": ["BroadcastFirstOnly", "WrongUnit"], "C12": ["NoTid"], "C17": ["SharedFramer"]}[prop]
    for d in devs:
        bad, _ = model_check_expect_violation("ServerMC", None, cfg_text=base.replace("SDev = {}", 'SDev = {"%s"}' % d))
        if not bad:
            raise MachineryError("ServerMC with deviation %s satisfies every property: vacuous" % d)
    rep.notes["model_deviations_rejected_by_tlc"] = devs


def run(prop, tier):
    rng = random.Random(seed() * 7 + int(prop[1:]))
    rep = Report(prop, tier, "fault_enumeration" if prop == "C12" else "model_checking")
    mc(prop, rep)
    known = {f["id"]: f for f in open_findings(prop)}
    if prop == "C17":
        rel = gen_c17(tier, rng)
        verdicts, st = validate_traces("ServerRelTrace", "ServerRelTrace.cfg", rel)
        rep.add_tv(st, len(rel), sum(len(r["obs"]) for t in rel for r in t["runs"]))
        traces, module = rel, "ServerRelTrace"
    else:
        traces = {"C09": gen_c09, "C10": gen_c10, "C12": gen_c12}[prop](tier, rng)
        verdicts, st = validate_traces("ServerTrace", "ServerTrace.cfg", traces, timeout=3000)
        rep.add_tv(st, len(traces), sum(len(t["ev"]) for t in traces))
        module = "ServerTrace"
    byid = {t["id"]: t for t in traces}
    ok = []
    sibling = 0
    for tid, v in verdicts.items():
        t = byid[tid]
        if v["status"] == "OK":
            ok.append(t)
            if prop == "C17":
                rep.distinct((t["mode"], t["kind"], len(t["runs"]), len(t["runs"][0]["obs"]), str(t["runs"][0]["obs"][0]["w"])[:30]))
            else:
                rep.distinct((t["fe"], t["kind"], t["cfg"]["single"], tuple(t["cfg"]["hosted"]), t["cfg"]["broadcast"], t["cfg"]["ignore"],
                              len(t["ev"]), sum(len(e["writes"]) for e in t["ev"])))
            continue
        mine = {c for c in v["clauses"] if prop in OWNER.get(c, set())}
        if not mine:
            sibling += 1
            continue
        fid = match_known(known, t, v)
        if fid:
            rep.known(fid)
        else:
            rep.violation("%s-%s-%s" % (t.get("fe", t.get("mode")), t["kind"], "-".join(sorted(mine))),
                          {"property": prop, "engine": module, "tag": "%s/%s" % (t.get("fe", t.get("mode")), t["kind"]), "trace": t, "verdict": v})
    rep.notes["failures_owned_by_sibling_properties"] = sibling
    if prop == "C09":
        # diagnostic / status requests: the state machine of spec/Device.tla through every front-end (silence and header clauses
        # are C09's; the response data are growth beyond the listed properties and are reported as SPEC-DIVERGENCE only)
        import devicecheck
        devicecheck.run_into(rep, prop, tier, random.Random(seed() * 7 + 909))
    # self-test
    muts = []
    if prop == "C17":
        b = next((t for t in ok if any(o["w"] for o in t["runs"][0]["obs"])), None)
        if b:
            m = copy.deepcopy(b)
            m["id"] = "st"
            o = next(o for o in m["runs"][0]["obs"] if o["w"])
            o["w"][0][-1] ^= 1
            muts.append(m)
    else:
        b = next((t for t in ok if any(e["writes"] for e in t["ev"])), None)
        if b:
            m = copy.deepcopy(b)
            m["id"] = "st"
            e = next(e for e in m["ev"] if e["writes"])
            if prop == "C10":
                e["chg"] = e["chg"] + [[m["units"][0][0], list(m["units"][0][1]["blocks"])[0], 0, 4242]]
            elif prop == "C12":
                e["writes"] = e["writes"] + [{"conn": e["conn"], "bytes": [1, 2, 3]}]
            else:
                e["writes"] = e["writes"] + [copy.deepcopy(e["writes"][0])]
            muts.append(m)
    if not muts:
        if not rep.violations:
            raise MachineryError("self-test: no accepted trace with a response")
        rep.notes["self_test"] = "skipped: no accepted trace in this run (violations are reported)"
    else:
        sv, _ = validate_traces(module, module + ".cfg", muts, shards=1)
        if sv["st"]["status"] != "FAIL":
            raise MachineryError("self-test: corrupted trace accepted")
        rep.notes["self_test"] = sv["st"]["clauses"]
    for t in ok[:2]:
        if prop == "C17":
            rep.sample({"id": t["id"], "mode": t["mode"], "kind": t["kind"], "front_ends": [r["fe"] for r in t["runs"]],
                        "obs0": [{"w": [bytes(x).hex() for x in o["w"]], "chg": o["chg"][:3]} for o in t["runs"][0]["obs"][:3]]})
        else:
            rep.sample({"id": t["id"], "fe": t["fe"], "kind": t["kind"], "cfg": t["cfg"],
                        "events": [{"conn": e["conn"], "n": e["n"], "writes": [bytes(w["bytes"]).hex() for w in e["writes"]],
                                    "chg": e["chg"][:3], "closed": e["closed"]} for e in t["ev"][:4]]})
    rep.cov["rule"] = ("cases = input events (reads / datagrams) handed to real server front-ends driven in-process; per event the write "
                       "calls, store changes of every unit, exceptions and connection state are recorded. distinct_nontrivial counts distinct "
                       "(front-end, framing, configuration, number of events, number of responses) tuples among accepted traces.")
    rep.assumptions += ["TLC 1.8.0 and CommunityModules are correct",
                        "front-ends are driven without sockets/threads (DESIGN.md 2.5); socketserver / Twisted reactor policies for exceptions "
                        "leaving a handler are emulated as documented there",
                        "one write call of a front-end = one response frame"]
    return rep.finish()
